#!/usr/bin/env python3
"""Regenerate MANIFEST.json from the table below (one place to edit)."""
import json, os
V = os.path.dirname(os.path.dirname(os.path.abspath(__file__)))
CHECKS = {
 "C15": dict(cat="model_checking", tech="TLC exhaustive refinement check (MVBatchMC) + TLC-generated histories replayed on real RocksDB + TLC trace validation (MVStoreTrace)",
             text="The batch merge / length-prefixed encoding layer is model-checked against the map-of-lists specification for every small store and batch; every TLC-enumerated short history and seeded random long histories are executed on the real rdb package and each recorded step is validated by TLC against the specification.",
             note="Bounded model (2 keys, 4 values, <=3 stored values, batches <=2+2); conformance is sampling of executions; trusts TLC, RocksDB, the harness' value digests.", ref="6.1"),
}
SERVE_NOTE = "Bounded model (2-3 query workers, <=2-3 reloads, <=4 generations); goroutines are steered only at public seams (Stats, ResponseWriter, DBI calls), interleavings between seams are left to the Go runtime; the instrumented in-memory backend stands for the CDB / RocksDB drivers (real backends are exercised by C14's stress); trusts TLC and the harness event log."
CHECKS.update({
 "C05": dict(cat="model_checking", tech="TLC model checking of Serve.tla (ideal design) + TLC counterexamples/simulation/lifecycle schedules replayed on the real FBDNSDB with parked goroutines + TLC trace validation of the event log (ServeObs)",
             text="The reload/serve design is model-checked exhaustively (visibility, single generation, monotonicity, failed reload is a no-op); behaviours of the code-shaped model (TLC counterexamples, TLC simulation, all short lifecycle sequences) are replayed step by step on the real dnsserver.FBDNSDB/db.DB with goroutines parked at seams, and TLC judges every recorded response against the property specification.",
             note=SERVE_NOTE, ref="5"),
 "C06": dict(cat="model_checking", tech="TLC model checking of the refcount/close lifecycle in Serve.tla + exhaustive short lifecycle sequences and TLC-generated schedules replayed on the real db.DB/FBDNSDB with an instrumented backend + ServeObs trace validation",
             text="NoUseAfterClose / CloseOnce / NoLeak are invariants of the model, checked exhaustively on the ideal design; every lifecycle sequence (acquire, use, release, the eight reload outcomes, late goroutine completion, shutdown) up to the depth bound plus TLC schedules are executed on the real code over a backend that records every touch, close and leak.",
             note=SERVE_NOTE, ref="5"),
 "C12": dict(cat="model_checking", tech="TLC model checking of the cache part of Serve.tla + replay of TLC schedules on the real handler with the cache enabled + ServeObs trace validation (StaleNeverServed)",
             text="StaleNeverServed is model-checked on the design; schedules that park a query across a complete reload (purge) and then run fresh queries are replayed on the real handler with the LRU enabled; TLC rejects any response, hit or miss, that carries a generation older than allowed.",
             note=SERVE_NOTE + " The cache-invisibility half (same response with and without cache) is checked by the differential driver described in DESIGN.md 5.5.", ref="5.5"),
})
CHECKS["C14"] = dict(cat="model_checking", tech="TLC model checking of IterPool.tla (lock/channel discipline, deadlock freedom) and Serve.tla + randomised stress of the real code under the Go race detector and a watchdog + ServeObs trace validation",
    text="The lock and channel discipline of the iterator pool and of reload/serve is model-checked for deadlock freedom and lockset discipline; the real code is stressed (query workers x partial/full reloads x stats reporter x shutdown) on the instrumented backend and on real CDB / RocksDB v1 / v2 under the race detector, plus a hot (maximum-throughput) stress that counts touches of a closed backend; verdict = race reports, hangs, crashes.",
    note="The race detector and the stress only see executed schedules: absence of a report is not a proof; bounded models (2-3 getters, pool of 2-3).", ref="5.6")
SEM_NOTE = "Bounded model; conformance is sampling of executions steered by the exhaustive enumeration of model states; the oracle (Resolve.tla / Lpm.tla) is written from the data-format documentation and the property text, not from the server code; trusts TLC, miekg/dns as message codec and the harness' normalisation of responses (self-test: a corrupted field must be rejected)."
CHECKS["C03"] = dict(cat="model_checking", tech="TLC model checking of LpmImpl.tla (rearranger range points + predecessor search, CDB prefix-length sets vs longest-prefix match on toy address spaces) + TLC-enumerated subnet sets embedded in the real address space and run through the real compilers/readers + TLC trace validation of every lookup against Lpm.tla (ResolveTrace)",
    text="Both lookup algorithms are model-checked equal to longest-prefix match for every set of <=3-4 subnets and every client prefix on three toy spaces in which a block plays the IPv4-mapped range; every enumerated set (plus name-to-map layouts and random realistic sets) is compiled with the real compilers and looked up through the real readers on CDB (combined and per-family sets) and RocksDB v1/v2, resolver and ECS paths, and TLC judges each observed (location, mask, map) against the property-level LPM on the real addresses.",
    note=SEM_NOTE + " Toy spaces of 4-5 address bits; IPv6 subnets containing the IPv4-mapped block are a labelled class (known finding F3b).", ref="4.4")
CHECKS["C01"] = dict(cat="model_checking", tech="TLC model checking of ResolveGen.tla (the oracle Resolve.tla accepts the ideal response and rejects its mutations on every file of a bounded universe) + TLC-enumerated data files rendered, compiled by the real compilers and served by the real handlers + TLC trace validation of every response against Resolve.tla (ResolveTrace)",
    text="The property is written as an executable TLA+ oracle (meaning of the 16 line types, locations, zone cuts, wildcards, NXDOMAIN/NODATA/referral/REFUSED); TLC proves it satisfiable and discriminating on a bounded universe and enumerates that universe; every enumerated file and seeded random worlds are compiled to CDB, RocksDB v1 and v2 by the real compilers and every query of the grid is judged by TLC against the oracle.",
    note=SEM_NOTE + " Universe: one zone, 27 candidate lines, K<=2-3 on the skeleton; random worlds cover the remaining line types and options.", ref="4.2")
CHECKS["C02"] = dict(cat="model_checking", tech="TLC model checking of Reader.tla (closest-key search over sorted v2 keys incl. context cache == label-by-label search, request level) + TLC-enumerated databases and random worlds compiled three ways (and with other compiler options) + TLC pairwise comparison and oracle judgement of all responses (ResolveTrace)",
    text="The v2 closest-key search is model-checked observationally equal to the label walk for every database of <=2-3 entries over a universe built to exercise SeekForPrev neighbourhoods (label lengths, locations, wildcard, zone cut, HTTPS); every enumerated database and random worlds are compiled to CDB / RocksDB v1 / v2 (sample: builder/batches, workers, batch size) and all responses are compared pairwise and judged by the oracle.",
    note=SEM_NOTE, ref="4.3")
CHECKS["C04"] = dict(cat="model_checking", tech="TLC model checking of the non-interference theorem on Resolve.tla (ResolveGen NonInterference) + metamorphic replay on the real servers (foreign-location / unrelated-map edits, tag erasure) + TLC comparison of the paired responses (ResolveTrace memo)",
    text="Non-interference is an invariant of the oracle checked on every file of the bounded universe; on the real servers every query of a client in L is asked on a file and on its edit (records of other locations or unrelated maps added/removed/changed; own view re-written untagged) and TLC requires identical responses on CDB, RocksDB v1 and v2.",
    note=SEM_NOTE, ref="4.6")
CHECKS["C10"] = dict(cat="model_checking", tech="TLC model checking of LpmImpl.tla ScopeOk (scope = matched length in the client's family, bounded) + ECS queries built from TLC-enumerated subnet sets and an enumerated shapes grid sent through the real handlers + TLC trace validation of OPT/ECS against Resolve.tla JudgeOpt (ResolveTrace)",
    text="The scope both lookup algorithms report is model-checked truthful and bounded on the toy spaces; every toy client of the enumerated subnet sets (canonical and with host bits on the wire), all IPv4 source lengths and the interesting IPv6 ones, map / no map / no match, REFUSED / referral / NXDOMAIN / answer and cache-hit paths are sent through the real handler on four backends and TLC judges OPT presence, ECS echo and scope of every packed response.",
    note=SEM_NOTE + " ECS options that already carry a scope or a family other than 1/2 are left to C13.", ref="4.5")
CHECKS["C11"] = dict(cat="model_checking", tech="TLC model checking of Wrs.tla (reservoir of db/wrs.go: Sound, Exact, TopK for all weight vectors / max-answer / draw tuples of a grid; Proportional by counting) + real handlers over generated candidate sets judged by Resolve.tla (SelectionOk, AdditionalOk) + seeded 20000-draw frequency vectors judged by TLC within 6 sigma (ResolveTrace JudgeFreq) + concurrent draws under the Go race detector",
    text="The selection algorithm is model-checked on a grid (bounds, soundness, top-k, proportionality by counting); the real server is asked address / MX / delegation queries over generated candidate sets (weights incl. 0 and 2^32-1, locations, wildcards, max-answer 1..8) with every response judged by TLC for cardinality, non-repetition, visibility and weight-0 exclusion; proportionality is decided on seeded 20000-draw frequency vectors per backend; concurrent use of the shared generator runs under the race detector.",
    note=SEM_NOTE + " Proportionality: statistical with a deterministic seed, resolution about 2-3 % absolute; max-answer > 1 inclusion probabilities are not judged.", ref="4.7")
STORE_NOTE = "Bounded models (4-5 lines, 2-3 workers, batch size 1-2, <=3 executors / buckets); the real pipeline's goroutine schedules are whatever the runtime produces on inputs built to make batches and buckets collide; reference = the sequential codec the property names; trusts TLC, RocksDB, the dump code of the harness (self-test: a dropped value must be rejected)."
CHECKS["C07"] = dict(cat="model_checking", tech="TLC model checking of Compile.tla (scanner / workers / results channel / CDB, batch and builder sinks: all interleavings; lossless, fails iff a line is rejected, terminates) + real compilations over the settings grid dumped completely + TLC comparison of dump and sequential-codec reference as key -> multiset (StoreTrace)",
    text="Every interleaving of the bounded pipeline model (incl. concurrent read-modify-write batches under the write mutex and bucket splits that keep equal keys together) ends with the multiset-by-key of the codec output; the real CDB and RocksDB compilers are run over workers x builder|batches x batch size x parallelism x v1|v2 on small, hot-key, >75000-record (runs of equal keys on the bucket boundaries) and rejected-line files, and TLC compares every complete dump with what the sequential codec emits.",
    note=STORE_NOTE, ref="6.2")
CHECKS["C08"] = dict(cat="model_checking", tech="TLC model checking of Diff.tla (ApplyDiff(Compile(A), A->B) = Compile(B) for all bags of lines, both orders; refused diff is a no-op) + real Preprocess / compile / rdb.ApplyDiff chains dumped completely + TLC comparison with a fresh compile (StoreTrace)",
    text="The diff theorem is checked on the property layer for every pair of small files (repeated lines, one pair from several lines); on the real code chains of 2-5 successive diffs in forward / reverse / shuffled order, v1 and v2 keys, with record, duplicate and subnet (range-point) changes are applied with rdb.ApplyDiff and every resulting database is dumped and compared by TLC with a fresh compile; eight classes of diffs that must be refused are checked to fail and leave the dump unchanged.",
    note=STORE_NOTE, ref="6.3")
CHECKS["C16"] = dict(cat="model_checking", tech="TLC model checking of CdbFile.tla (slot tables with linear probing vs 'values in insertion order' for EVERY hash function and pair sequence) + TLC-enumerated pair sequences, searched SpookyHash collisions, sizes 0..50000 and buffer-boundary lengths written and read back with the real go-cdb-mods + TLC recomputation of the expected value lists (CdbTrace)",
    text="The slot-table construction and probing lookup are model-checked against the abstract sequence of pairs for every hash function into 8 values over 2 tables (every collision pattern of <=4-5 pairs); every enumerated sequence over keys {'', a, b} x values {'', x, yy}, keys found at run time that collide on table and start slot (wrapping chains) or in all 32 hash bits with an extension of themselves, sizes up to 50000 and lengths around the 4096-byte buffers are written with the real writer, read back key by key to end-of-data, enumerated and round-tripped through Dump -> Make (byte equality); TLC recomputes the expected lists.",
    note="Bounded model (3 keys, 2 tables, 8 hash values, <=5 pairs); real-code cases are sampled executions; trusts TLC, the harness' hex representation of byte strings.", ref="6.4")
CHECKS["C17"] = dict(cat="exploration", tech="TLA+ escape grammar (Quote.tla: decoder + separator-freedom), self-checked by TLC (QuoteMC) + real Bquote/Bunquote on every byte string of length <= 2 and structured random strings, real MarshalText round trips of lines holding them + TLC trace validation (QuoteTrace)",
    text="A single pure function pair: the spec is an executable contract (what any correct quoted form must decode to, and that it holds no separator); TLC checks the contract against trivially correct encoders and judges the real functions exhaustively for lengths <= 2 (65793 strings) and on structured random strings, including inside real data-file lines re-serialised by MarshalText.",
    note="Exhaustive only up to length 2; longer strings are sampled (seeded); the grammar is the judge, strconv.Quote is not modelled; trusts TLC.", ref="7")
NA = {}
props = [json.loads(l)["id"] for l in open(os.path.join(V, "properties.jsonl"))]
m = {
 "version": 1,
 "setup_cmd": "tools/setup.sh",
 "hooks": {"guard": "verif", "enable": "go build -tags verif -ldflags=-checklinkname=0 (harness module with replace => /repo/dnsrocks)",
           "baseline_off_cmd": "cd /repo/dnsrocks && GOFLAGS=-mod=mod go test -vet=off -count=1 -timeout 25m ./... ; cd /repo/dnsrocks/go-cdb-mods && GOFLAGS=-mod=mod go test -vet=off -count=1 -timeout 25m ./...",
           "source_commits": [], "add_only": True},
 "engines": [{"name": "tlc", "path": "spec/", "serves_properties": sorted(CHECKS), "kind_free_text": "TLA+ specifications checked with TLC (exhaustive, generator and trace-validation modes)"},
             {"name": "vh", "path": "harness/", "serves_properties": sorted(CHECKS), "kind_free_text": "Go conformance harness driving the real packages; records ndjson traces"}],
 "checks": [],
 "not_applicable": [],
 "notes": "See DESIGN.md. Verdicts come only from observations of the real code judged by TLC against the TLA+ specification.",
}
hooks_file = os.path.join(V, "tools", "hook_commits.txt")
if os.path.exists(hooks_file):
    m["hooks"]["source_commits"] = [l.strip() for l in open(hooks_file) if l.strip()]
for pid in props:
    if pid in CHECKS:
        c = CHECKS[pid]
        m["checks"].append({"property_id": pid, "quick_cmd": "./check %s --tier quick" % pid, "thorough_cmd": "./check %s --tier thorough" % pid,
                            "evidence_file": "evidence/%s.json" % pid, "replay_cmd_template": "./check %s --replay {path}" % pid, "engine": "tlc+vh",
                            "level_claimed": {"category": c["cat"], "text": c["text"], "design_ref": "DESIGN.md section " + c["ref"]},
                            "level_note": c["note"], "technique": c["tech"]})
    else:
        m["not_applicable"].append({"property_id": pid, "reason": NA.get(pid, "check not built yet (work in progress; planned in DESIGN.md)")})
json.dump(m, open(os.path.join(V, "MANIFEST.json"), "w"), indent=1)
print("checks:", len(m["checks"]), "not_applicable:", len(m["not_applicable"]))
