#!/usr/bin/env python3
"""Regenerate MANIFEST.json from the table below (one place to edit)."""
import json, os
V = os.path.dirname(os.path.dirname(os.path.abspath(__file__)))
CHECKS = {
 "C15": dict(cat="model_checking", tech="TLC exhaustive refinement check (MVBatchMC) + TLC-generated histories replayed on real RocksDB + TLC trace validation (MVStoreTrace)",
             text="The batch merge / length-prefixed encoding layer is model-checked against the map-of-lists specification for every small store and batch; every TLC-enumerated short history and seeded random long histories are executed on the real rdb package and each recorded step is validated by TLC against the specification.",
             note="Bounded model (2 keys, 4 values, <=3 stored values, batches <=2+2); conformance is sampling of executions; trusts TLC, RocksDB, the harness' value digests.", ref="6.1"),
}
NA = {}
props = [json.loads(l)["id"] for l in open(os.path.join(V, "properties.jsonl"))]
m = {
 "version": 1,
 "setup_cmd": "tools/setup.sh",
 "hooks": {"guard": "verif", "enable": "go build -tags verif -ldflags=-checklinkname=0 (harness module with replace => /repo/dnsrocks)",
           "baseline_off_cmd": "cd /repo/dnsrocks && GOFLAGS=-mod=mod go test -vet=off -count=1 -timeout 25m ./... ; cd /repo/dnsrocks/go-cdb-mods && GOFLAGS=-mod=mod go test -vet=off -count=1 -timeout 25m ./...",
           "source_commits": [], "add_only": True},
 "engines": [{"name": "tlc", "path": "spec/", "serves_properties": sorted(CHECKS), "kind_free_text": "TLA+ specifications checked with TLC (exhaustive, generator and trace-validation modes)"},
             {"name": "vh", "path": "harness/", "serves_properties": sorted(CHECKS), "kind_free_text": "Go conformance harness driving the real packages; records ndjson traces"}],
 "checks": [],
 "not_applicable": [],
 "notes": "See DESIGN.md. Verdicts come only from observations of the real code judged by TLC against the TLA+ specification.",
}
hooks_file = os.path.join(V, "tools", "hook_commits.txt")
if os.path.exists(hooks_file):
    m["hooks"]["source_commits"] = [l.strip() for l in open(hooks_file) if l.strip()]
for pid in props:
    if pid in CHECKS:
        c = CHECKS[pid]
        m["checks"].append({"property_id": pid, "quick_cmd": "./check %s --tier quick" % pid, "thorough_cmd": "./check %s --tier thorough" % pid,
                            "evidence_file": "evidence/%s.json" % pid, "replay_cmd_template": "./check %s --replay {path}" % pid, "engine": "tlc+vh",
                            "level_claimed": {"category": c["cat"], "text": c["text"], "design_ref": "DESIGN.md section " + c["ref"]},
                            "level_note": c["note"], "technique": c["tech"]})
    else:
        m["not_applicable"].append({"property_id": pid, "reason": NA.get(pid, "check not built yet (work in progress; planned in DESIGN.md)")})
json.dump(m, open(os.path.join(V, "MANIFEST.json"), "w"), indent=1)
print("checks:", len(m["checks"]), "not_applicable:", len(m["not_applicable"]))
