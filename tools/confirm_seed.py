#!/usr/bin/env python3
"""Confirm a seeded change in a scratch worktree and install it under /verif/seeded/<PID>-<X>/.

usage: confirm_seed.py /tmp/seed/C15-out/A
Checks: demo passes without the patch; with the patch the code builds, the pinned suite gives the same
per-package result as baseline, and the demo fails.  Writes meta.json with a "confirmed" record."""
import json, os, re, shutil, subprocess, sys

src = os.path.abspath(sys.argv[1])
meta = json.load(open(os.path.join(src, "meta.json")))
pid = meta["property"]
name = "%s-%s" % (pid, os.path.basename(src))
wt = "/tmp/confirm/" + name
env = dict(os.environ, GOFLAGS="-mod=mod", GOPROXY="off", GOSUMDB="off", GOTOOLCHAIN="local")


def sh(cmd, cwd, timeout=1500):
    p = subprocess.run(cmd, shell=True, cwd=cwd, env=env, stdout=subprocess.PIPE, stderr=subprocess.STDOUT, text=True, timeout=timeout)
    return p.returncode, p.stdout


def suite(cwd):
    res = {}
    for d in ("dnsrocks", "dnsrocks/go-cdb-mods"):
        rc, out = sh("go test -vet=off -count=1 -timeout 25m ./...", os.path.join(cwd, d))
        for l in out.splitlines():
            m = re.match(r"^(ok|FAIL|---)\s+(\S+)", l)
            if m and m.group(1) in ("ok", "FAIL"):
                res[d + ":" + m.group(2)] = m.group(1)
    return res


os.makedirs("/tmp/confirm", exist_ok=True)
subprocess.run(["git", "-C", "/repo", "worktree", "remove", "--force", wt], stdout=subprocess.DEVNULL, stderr=subprocess.DEVNULL)
subprocess.check_call(["git", "-C", "/repo", "worktree", "add", "-q", "--detach", wt, "HEAD"])
rec = {}
try:
    base_file = "/tmp/confirm/baseline-suite.json"
    if os.path.exists(base_file):
        base = json.load(open(base_file))
    else:
        base = suite(wt)
        json.dump(base, open(base_file, "w"))
    for f, dst in meta["demo_files"].items():
        d = os.path.join(wt, dst)
        os.makedirs(os.path.dirname(d), exist_ok=True)
        shutil.copy(os.path.join(src, "demo", f), d)
    cmd = re.split(r"\s{2,}[(#]", meta["demo_cmd"])[0].strip()
    rc0, out0 = sh(cmd, wt)
    rec["demo_without_patch_rc"] = rc0
    rc, out = sh("git apply " + os.path.join(src, "patch.diff"), wt)
    rec["apply_rc"] = rc
    rcb, outb = sh("go build -ldflags=-checklinkname=0 ./... && cd go-cdb-mods && go build ./...", os.path.join(wt, "dnsrocks"))
    rec["build_rc"] = rcb
    rc1, out1 = sh(cmd, wt)
    rec["demo_with_patch_rc"] = rc1
    rec["demo_with_patch_tail"] = "\n".join(out1.splitlines()[-12:])
    # suite without the demo files present
    for f, dst in meta["demo_files"].items():
        os.remove(os.path.join(wt, dst))
    s = suite(wt)
    rec["suite_same_as_baseline"] = (s == base)
    if s != base:
        rec["suite_diff"] = {k: (base.get(k), s.get(k)) for k in set(base) | set(s) if base.get(k) != s.get(k)}
    rec["ok"] = (rc0 == 0 and rc == 0 and rcb == 0 and rc1 != 0 and s == base)
finally:
    subprocess.run(["git", "-C", "/repo", "worktree", "remove", "--force", wt])
dst = os.path.join("/verif/seeded", name)
if rec.get("ok"):
    shutil.rmtree(dst, ignore_errors=True)
    os.makedirs(dst)
    shutil.copy(os.path.join(src, "patch.diff"), dst)
    shutil.copytree(os.path.join(src, "demo"), os.path.join(dst, "demo"))
    meta["confirmed"] = rec
    meta.setdefault("detected_by", "not yet evaluated")
    json.dump(meta, open(os.path.join(dst, "meta.json"), "w"), indent=1)
print(name, json.dumps({k: v for k, v in rec.items() if k != "demo_with_patch_tail"}))
