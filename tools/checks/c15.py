"""C15 - RocksDB multi-value store behaves like a map of lists.

1. MC   : MVBatchMC - the encoding / batch-merge implementation layer refines MVStore (exhaustive, small bounds)
2. GEN  : MVStoreGen - TLC enumerates every short history (with the expected store after every step)
3. RUN  : the harness replays them, plus seeded random long histories, on a real RocksDB (rdb package)
4. TV   : MVStoreTrace - TLC validates every recorded step against the property layer
"""
import json
import os
import random

import vlib
from vlib import Scratch, tlc, tv, Report, log, tier, seed


def gen(sc, n, mode, ba, bd, name):
    sc.write(name + ".cfg", "SPECIFICATION Spec\nCONSTANTS N = %d BatchMode = %d MaxBA = %d MaxBD = %d\nINVARIANT Emit\nCHECK_DEADLOCK FALSE\n" % (n, mode, ba, bd))
    r = tlc(sc, "MVStoreGen", name + ".cfg", workers=8, timeout=1500)
    hists = []
    for line in r["out"].splitlines():
        if line.startswith('"[{'):
            hists.append(json.loads(json.loads(line)))
    return r, hists


def run():
    rep = Report("C15", "model_checking")
    thorough = tier() == "thorough"
    vlib.build_harness()
    os.makedirs(vlib.OUT, exist_ok=True)
    states = trans = 0
    with Scratch() as sc:
        ms, ma, md = (3, 2, 2) if thorough else (2, 2, 2)
        sc.write("mc.cfg", "SPECIFICATION Spec\nCONSTANTS MaxStore = %d MaxAdds = %d MaxDels = %d\n"
                 "INVARIANTS EncodingRoundTrip DelValueRefines BatchRefines OrderIndependent\nCHECK_DEADLOCK FALSE\n" % (ms, ma, md))
        r = tlc(sc, "MVBatchMC", "mc.cfg", workers=16, timeout=1800)
        log("[C15] MVBatchMC: %d distinct states, %.0fs" % (r["distinct"], r["wall"]))
        states += r["distinct"]
        trans += r["generated"]
        plans = [(3, 0, 0, 0), (2, 1, 1, 2), (2, 3, 3, 3)] if not thorough else [(3, 0, 0, 0), (4, 0, 0, 0), (2, 1, 2, 2), (2, 2, 1, 1), (2, 3, 3, 4)]
        hists = []
        for i, (n, mode, ba, bd) in enumerate(plans):
            r, h = gen(sc, n, mode, ba, bd, "gen%d" % i)
            log("[C15] MVStoreGen N=%d mode=%d: %d histories, %.0fs" % (n, mode, len(h), r["wall"]))
            if len(h) != r["distinct"] - sum(1 for _ in []) and len(h) == 0:
                raise vlib.Infra("generator produced no histories")
            states += r["distinct"]
            trans += r["generated"]
            hists += h
    histfile = os.path.join(vlib.OUT, "c15-hist.ndjson")
    vlib.write_ndjson(histfile, hists)
    trace = os.path.join(vlib.OUT, "c15-trace.ndjson")
    nrand, rlen = (400, 40) if thorough else (40, 25)
    p = vlib.run_vh(["c15", "-hist", histfile, "-out", trace, "-random", str(nrand), "-len", str(rlen)], timeout=3000)
    info = json.loads(p.stdout.strip().splitlines()[-1])
    res = tv("MVStoreTrace", trace, timeout=3000)
    log("[C15] trace: %d lines validated in %.0fs, %d rejected" % (res["total"], res["wall"], len(res["rejects"])))

    lines = None
    if res["rejects"]:
        lines = open(trace).read().splitlines()
        for (ln,) in res["rejects"][:50]:
            e = json.loads(lines[ln - 1])
            # context: the history up to this line
            j = ln - 1
            while j > 0 and json.loads(lines[j - 1]).get("ev") != "reset":
                j -= 1
            hist = [json.loads(x) for x in lines[max(j - 1, 0):ln]]
            sig = "rdb:%s:%s" % (e.get("ev"), e.get("op", ""))
            rep.violation(sig, "step %d of history %d (%s) is not a step of MVStore: %s" % (ln, e.get("h"), e.get("op", e.get("ev")), json.dumps(e)[:300]),
                          {"history": hist})

    # self-test of the binding: corrupt one recorded value / drop one value and expect rejection
    st_ok = selftest(trace)

    # non-triviality: histories in which some operation failed or a key disappeared
    nontrivial = set()
    samples = []
    cur, flag = [], False
    for raw in open(trace):
        e = json.loads(raw)
        if e["ev"] == "reset":
            if flag:
                nontrivial.add(json.dumps([[x.get("op"), x.get("k"), x.get("v"), x.get("adds"), x.get("dels")] for x in cur]))
            cur, flag = [], False
            continue
        cur.append(e)
        if e.get("err", "none") != "none" or (e["ev"] == "op" and any(len(v) == 0 for v in e["obs"].values())):
            flag = True
    with open(trace) as f:
        samples = [json.loads(next(f)) for _ in range(6)]
    rep.cov = {"states": states, "transitions": trans, "traces_validated_against_impl": info["histories"],
               "samples": samples, "evaluations": res["total"], "distinct_nontrivial": len(nontrivial),
               "rule": "histories = all TLC-enumerated short histories over {k1,k2}x{'','a','ab','b'} (singles and batches) + seeded random "
                       "long ones; non-trivial = distinct histories containing a failing operation or a key that became empty",
               "trace_lines": res["total"], "selftest_corruptions_rejected": st_ok,
               "exhaustive": True}
    rep.assumptions = ["TLC and the TLA+ Json module", "harness value representation (hex / length+sha256 digest) is injective",
                       "RocksDB itself; one cell per length prefix in MVBatch (values < 256 bytes in the model)"]
    if not st_ok:
        raise vlib.Infra("binding self-test failed: corrupted trace was accepted")
    return rep.finish()


def selftest(trace):
    """Corrupt one observation and delete one value in a copy of (a prefix of) the trace: TLC must reject both."""
    rows = []
    with open(trace) as f:
        for i, raw in enumerate(f):
            rows.append(json.loads(raw))
            if i > 400:
                break
    rnd = random.Random(seed())
    cands = [i for i, e in enumerate(rows) if e["ev"] == "op" and any(e["obs"].values())]
    if not cands:
        return False
    i = rnd.choice(cands)
    k = next(k for k, v in rows[i]["obs"].items() if v)
    rows[i]["obs"][k] = rows[i]["obs"][k][:-1]          # drop the last value that the store really returned
    path = os.path.join(vlib.OUT, "c15-selftest.ndjson")
    vlib.write_ndjson(path, rows)
    res = tv("MVStoreTrace", path)
    return any(r[0] == i + 1 for r in res["rejects"])


def replay(path):
    d = json.load(open(path))
    hist = d["replay"]["history"]
    rows = []
    for e in hist:
        rows.append(e)
    print(json.dumps(d, indent=1)[:3000])
    print("re-run: the history above is replayed by './check C15' (deterministic per VERIF_SEED=%s)" % d.get("seed"))
    return 0
