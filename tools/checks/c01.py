"""C01 - served answers are exactly what the data file declares.

1. MC  : ResolveGen.tla - on every file of the bounded universe the oracle (Resolve.tla) accepts the response of an
         ideal server and rejects its mutations (satisfiable, discriminating: the judge is neither vacuous nor
         contradictory).
2. GEN : every file of that universe (K extra lines on the zone skeleton) is printed by TLC.
3. RUN : rendered to text (both separators, optional fields dropped at random), compiled by the real compilers to
         CDB / RocksDB v1 / RocksDB v2, every query of the grid asked through the real handler; plus seeded random
         "worlds" (all 16 line types, nested zones, delegations, locations, maps, ECS).
4. TV  : ResolveTrace.tla judges every response against Resolve.tla.
"""
import json
import random

import vlib
import semlib
import semcheck
import semfam
from vlib import Scratch, Report, log, tier, seed


def run():
    rep = Report("C01", "model_checking")
    thorough = tier() == "thorough"
    rng = random.Random(seed() * 7717 + 1)
    vlib.build_harness()
    with Scratch() as sc:
        r, files = semfam.resolvegen(sc, 3 if thorough else 2)
    log("[C01] ResolveGen: %d files; oracle satisfiable + discriminating on all of them (%.0fs)" % (r["distinct"], r["wall"]))
    files = [f for f in files if f]
    rng.shuffle(files)
    ones = [f for f in files if len(f) == 1]
    more = [f for f in files if len(f) > 1]
    chosen = ones + more[:(1200 if thorough else 70)]
    script = semlib.Script()
    for f in chosen:
        semfam.rg_script(script, f, rng, qfrac=1.0 if len(f) == 1 else 0.5)
    semfam.world_script(script, rng, 300 if thorough else 25, loc_zone=True)
    trace, rows, res, info = semcheck.validate(script, "c01")
    stats = {}
    semcheck.collect(rep, script, rows, res, ["C01:"], stats)
    st = semcheck.selftest(trace, rows)
    rep.cov = {"states": r["distinct"], "transitions": r["generated"], "traces_validated_against_impl": info["files"],
               "samples": semfam.sample_rows(rows), "evaluations": info["queries"] * 4,
               "distinct_nontrivial": semfam.nontrivial_queries(rows, lambda e: any(x.get("written") and x["rcode"] != 5 for x in e["r"].values())),
               "rule": "files = TLC-enumerated universe (skeleton + <=K lines) + seeded random worlds; each query is asked on cdb, cdb(per-family), "
                       "rocksdb-v1, rocksdb-v2; non-trivial = distinct (file, query) answered with something other than REFUSED",
               "files": info["files"], "rejected_judgements": len(res["rejects"]), "foreign_clauses": stats.get("foreign", {}),
               "selftest_corruption_rejected": st}
    rep.assumptions = ["TLC, the TLA+ Json module, miekg/dns as message codec",
                       "the oracle is silent on RR order, qtype ANY/DS, qclass != IN, letter case (DESIGN.md 4.2)"]
    if st is False:
        raise vlib.Infra("binding self-test failed: a corrupted TTL was accepted")
    return rep.finish()


def replay(path):
    """re-executes the recorded case on the current tree and lets TLC judge it again: exit 1 if it is still rejected"""
    d = json.load(open(path))
    print(json.dumps({k: v for k, v in d.items() if k != "replay"}, indent=1)[:3000])
    print("data file:\n" + d["replay"].get("data_file", "")[:4000])
    rej = semlib.replay_rows(path)
    if rej is None:
        return 0
    mine = [r for r in rej if str(r[2]).startswith(d["property"] + ":") or d["property"] == "C02"]
    if mine:
        print("VIOLATION property=%s replay=%s" % (d["property"], path))
        return 1
    print("not reproduced on the current tree")
    return 0
