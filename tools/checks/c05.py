"""C05: see servelib.run_property (shared Serve model / replay / ServeObs pipeline)."""
import servelib


def run():
    return servelib.run_property("C05")


def replay(path):
    import json
    d = json.load(open(path))
    print(json.dumps(d, indent=1)[:6000])
    return 0
