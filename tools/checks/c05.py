"""C05: servelib.run_property (Serve model -> schedules replayed on the real FBDNSDB over the instrumented backend -> ServeObs)
plus free-running traces on the REAL backends (CDB file replaced by rename / switched; RocksDB secondary of a primary that is
updated with ApplyDiff, partial = catch-up, full = new directory), judged by the same ServeObs for the C05 reasons: what a
query that starts after a reload has really returned must see."""
import servelib
from vlib import tier


def real_backends(rep):
    t = 8 if tier() == "thorough" else 3
    servelib.free_running(rep, "C05", [("cdb", t, False), ("rdb-v1", t, False), ("rdb-v2", t, True), ("rdb-v2", t, False)])


def run():
    return servelib.run_property("C05", extra=real_backends)


def replay(path):
    import json
    d = json.load(open(path))
    print(json.dumps(d, indent=1)[:6000])
    return 0
