"""C19 - exported statistics and the query log tell the truth.

Sampled metrics : SlidingWindow.tla (discrete-time model of the window with an ideal cleaner: ReportOk model-checked;
                  the pre-fix loop of swindow.go as a switch) and SlidingWindowTrace.tla, which applies the same rule to
                  timed observations of REAL windows (hook: metrics.NewWindowForVerif, lifetime 1.5 s, the real 1 s cleaner;
                  dozens of windows driven on different schedules so that live and expired samples coexist at a tick),
                  and to the real metrics.Stats after N goroutines x M concurrent counter / sample updates.
Counters / log  : recording implementations of the public Stats and Logger interfaces around the real handler; for every
                  query of every response class (answer, NODATA, NXDOMAIN, referral, REFUSED, BADVERS, cache hit / miss)
                  on CDB / RocksDB v1 / v2, ResolveTrace.tla JudgeCounters relates the increments and logger calls to the
                  response actually sent.
"""
import json
import os
import random

import vlib
import semlib
import semgen
import semcheck
import semfam
from vlib import Scratch, tlc, tv, Report, log, tier, seed


def counters_script(rng, nworlds):
    s = semlib.Script()
    for i in range(nworlds):
        w = semgen.gen_world(rng, nrec=20, default_routes=False)
        cache = bool(i % 2)
        s.file(w.lines, rng, tag="rec", opts={"record": True, "cache": cache})
        qs = semgen.world_queries(w, rng, per_name=3)
        # types whose code is beyond 255 but that have a mnemonic (CAA, URI), and one that has none
        for q, c in list(qs[:12]):
            for t in (257, 256, 32769, 12345):
                q2, c2 = dict(q), dict(c)
                q2["type"], c2["type"] = t, t
                qs.append((q2, c2))
        for q, c in qs:
            s.q(q, c, tag="rec")
            r = rng.random()
            if r < 0.25:                                   # the same again: cache-hit path when the cache is on
                s.q(q, c, tag="rec")
            if r > 0.85:                                   # unsupported EDNS version: BADVERS class
                c2 = dict(c)
                c2["edns"], c2["ednsv"] = True, rng.choice([1, 2, 255])
                q2 = dict(q)
                q2["edns"] = True
                s.q(q2, c2, tag="rec-badvers")
            if 0.5 < r < 0.6:
                c3 = dict(c)
                c3["edns"], c3["do"] = True, True
                q3 = dict(q)
                q3["edns"] = True
                s.q(q3, c3, tag="rec")
    return s


def run():
    rep = Report("C19", "model_checking")
    thorough = tier() == "thorough"
    rng = random.Random(seed() * 1901 + 19)
    vlib.build_harness()
    with Scratch() as sc:
        sc.write("sw.cfg", "SPECIFICATION Spec\nCONSTANTS W = 3 TICK = 2 MaxTime = %d MaxAdds = %d IdealCleaner = TRUE\nINVARIANT ReportOk\nCHECK_DEADLOCK FALSE\n" % ((12, 6) if thorough else (9, 5)))
        r = tlc(sc, "SlidingWindow", "sw.cfg", workers=16, timeout=3000)
    log("[C19] SlidingWindow.tla: ReportOk on %d states (%.0fs)" % (r["distinct"], r["wall"]))
    os.makedirs(vlib.OUT, exist_ok=True)
    wtrace = os.path.join(vlib.OUT, "c19-window.ndjson")
    vlib.run_vh(["window", "-out", wtrace, "-windows", "120" if thorough else "60", "-ms", "14000" if thorough else "6500"], timeout=600)
    wres = tv("SlidingWindowTrace", wtrace, timeout=3000)
    wrows = [json.loads(x) for x in open(wtrace)]
    log("[C19] %d timed window events validated in %.0fs, %d rejected" % (len(wrows), wres["wall"], len(wres["rejects"])))
    for rej in wres["rejects"]:
        e = wrows[rej[0] - 1]
        sig = "window|" + rej[1]
        if any(v[0] == sig for v in rep.viol):
            continue
        hist = [x for x in wrows[:rej[0]] if x.get("w") == e.get("w")][-12:]
        rep.violation(sig, "%s: %s" % (rej[1], json.dumps(e)), {"event": e, "history_of_this_window": hist})
    script = counters_script(rng, 24 if thorough else 6)
    trace, rows, res, info = semcheck.validate(script, "c19", backends="cdb,v1,v2")
    stats = {}
    semcheck.collect(rep, script, rows, res, ["C19:"], stats)
    classes = {}
    for e in rows:
        if e["ev"] == "q":
            x = e["r"].get("cdb") or next(iter(e["r"].values()))
            k = "nowrite" if not x["written"] else ("badvers" if x["rcode"] == 16 else "refused" if x["rcode"] == 5 else "nxdomain" if x["rcode"] == 3 else
                                                    "referral" if not x["aa"] else "nodata" if not x["an"] else "answer")
            if x.get("counters", {}).get("DNS_cache.hit"):
                k += "+cachehit"
            classes[k] = classes.get(k, 0) + 1
    st = selftest(rows)
    qrows = [e for e in rows if e["ev"] == "q"]
    rep.cov = {"states": r["distinct"], "transitions": r["generated"], "traces_validated_against_impl": 1 + info["files"],
               "samples": [wrows[len(wrows) // 2], {"q": semlib.show_q(qrows[0]["q"]), "cdb": {k: qrows[0]["r"]["cdb"].get(k) for k in ("counters", "nlog", "nlogfailed", "logsame")}}],
               "evaluations": len(wrows) + len(qrows) * 3, "distinct_nontrivial": sum(1 for e in wrows if e["ev"] == "obs" and e["vals"]) + len(classes),
               "rule": "window: every add / Samples() call of 60-120 real windows over 6.5-14 s (non-trivial = observations of a non-empty window); counters: every query of "
                       "seeded worlds on cdb / rocksdb-v1 / rocksdb-v2 with recording Stats and Logger (response classes seen are listed)",
               "response_classes": classes, "window_events": len(wrows), "foreign_clauses": stats.get("foreign", {}), "selftest_corruption_rejected": st}
    rep.assumptions = ["TLC, the TLA+ Json module", "wall-clock slack EPS = 200 ms absorbs scheduling jitter of the real cleaner tick",
                       "exports for an empty window are not judged"]
    if st is False:
        raise vlib.Infra("binding self-test failed")
    return rep.finish()


def selftest(rows):
    import copy
    for i, e in enumerate(rows):
        if e["ev"] == "q" and e.get("rec") and all(r.get("written") and r["rcode"] == 3 for r in e["r"].values()):
            j = i
            while rows[j]["ev"] != "file":
                j -= 1
            sub = [rows[j], copy.deepcopy(e)]
            b = sorted(sub[1]["r"])[0]
            sub[1]["r"][b]["counters"]["DNS_queries_nxdomain"] = 0
            path = os.path.join(vlib.OUT, "selftest-c19.ndjson")
            vlib.write_ndjson(path, sub)
            r = vlib.tv("ResolveTrace", path)
            return any(x[0] == 2 and x[1] == b and x[2] == "C19:nxdomain-counter" for x in r["rejects"])
    return None


def replay(path):
    """re-executes the recorded case on the current tree and lets TLC judge it again: exit 1 if it is still rejected"""
    d = json.load(open(path))
    print(json.dumps({k: v for k, v in d.items() if k != "replay"}, indent=1)[:3000])
    print("data file:\n" + d["replay"].get("data_file", "")[:4000])
    rej = semlib.replay_rows(path)
    if rej is None:
        return 0
    mine = [r for r in rej if str(r[2]).startswith(d["property"] + ":") or d["property"] == "C02"]
    if mine:
        print("VIOLATION property=%s replay=%s" % (d["property"], path))
        return 1
    print("not reproduced on the current tree")
    return 0
