"""C09 - text normal form and preprocessing preserve meaning.

First half  (lines)  : DataLine.tla enumerates the line grammar (every type x optional fields x wildcard x location x
                       address family x short / full targets x labels that need escaping); each line is rendered with
                       both separators and trailing empty fields dropped or kept; real DecodeLn -> MarshalText -> DecodeLn ->
                       MarshalText; LineTrace.tla requires: accepted, same keys and values, stable text.  Range-point (!)
                       lines, the 17th type, come from the real preprocessor's output.
Second half (files)  : seeded random worlds with subnet maps - including one map with more than 100 range points - are
                       preprocessed by the real Codec.Preprocess; original and preprocessed file are compiled to RocksDB
                       (v1 and v2 keys) and dumped; StoreTrace.tla compares the dumps as key -> multiset of values.
"""
import ipaddress
import json
import os
import random

import vlib
import semlib
import semgen
import semfam
from vlib import Scratch, tlc, tv, Report, log, tier, seed

SERIAL = 1700000000


def big_map_lines(rng, n):
    """n non-adjacent subnets in one map: more than 100 range points (the preprocessor streams them in chunks of 100)"""
    out = []
    for i in range(n):
        if rng.random() < 0.7:
            out.append(semlib.net(rng.choice([1, 2, 3]), "10.%d.%d.0/24" % (i // 120, (i % 120) * 2), 0x6D31))
        else:
            out.append(semlib.net(rng.choice([1, 2, 3]), "2001:db8:%x::/48" % (i * 2), 0x6D31))
    return out


def run():
    rep = Report("C09", "exploration")
    thorough = tier() == "thorough"
    rng = random.Random(seed() * 9091 + 9)
    vlib.build_harness()
    with Scratch() as sc:
        sc.write("dl.cfg", "SPECIFICATION Spec\nINVARIANT Emit\nCHECK_DEADLOCK FALSE\n")
        g = tlc(sc, "DataLine", "dl.cfg", workers=4, timeout=1500)
    absl = [semfam.finish_line(json.loads(json.loads(l))) for l in g["out"].splitlines() if l.startswith('"{')]
    log("[C09] DataLine.tla: %d abstract lines" % len(absl))
    rows = []
    for l in absl:
        for sep in (",", ":"):
            for rep_ in range(2 if thorough else 1):
                rows.append({"text": semlib.render(l, rng, sep), "tag": l["t"]})
    # files: preprocess
    srows = []
    nid = 0
    pp_inputs = []
    for i in range(40 if thorough else 8):
        w = semgen.gen_world(rng, nrec=rng.choice([8, 30]), default_routes=rng.random() < 0.4)
        lines = list(w.lines)
        if i % 4 == 0:
            lines = [l for l in lines if not (l["t"] == "%" and l["map"] == 0x6D31)] + big_map_lines(rng, rng.choice([60, 130, 260]))
            if not any(l["t"] == "M" for l in lines):
                lines.append(semlib.L("M", semlib.nm(w.zones[0]), wild=True, mapid=0x6D31))
        # IPv6 subnets with long prefixes (/96 ... /128): their range points carry masks in the range IPv4 points use
        lines += [semlib.net(rng.choice([1, 2, 3]), c, 0x6D31) for c in rng.sample(
            ["2001:db8:0:1::5:100/120", "2001:db8::7/128", "2001:db8:aaaa::/96", "2001:db8:0:2::/127", "2001:db8:bbbb::1:0/112", "fd00::1/128"], 3)
            if not any(l["t"] == "%" and l["map"] == 0x6D31 and l.get("_net") == c for l in lines)]
        if not any(l["t"] == "M" for l in lines):
            lines.append(semlib.L("M", semlib.nm(w.zones[0]), wild=True, mapid=0x6D31))
        s = semlib.Script()
        s.file(lines, rng)
        text = s.rows[0]["text"]
        for v2 in (False, True):
            nid += 1
            srows.append({"ev": "preproc", "id": nid, "text": text, "v2": v2, "serial": SERIAL, "detail": len(lines) < 60, "tag": "preproc"})
    os.makedirs(vlib.OUT, exist_ok=True)
    sinp, strace = os.path.join(vlib.OUT, "c09-store-in.ndjson"), os.path.join(vlib.OUT, "c09-store-trace.ndjson")
    vlib.write_ndjson(sinp, srows)
    vlib.run_vh(["store", "-in", sinp, "-out", strace], timeout=3000)
    sout = [json.loads(x) for x in open(strace)]
    # the preprocessed files are made of normal-form lines, among them the range-point lines: round-trip those too
    seen = set()
    for e in sout:
        for ln in e.get("pp", "").split("\n"):
            if ln and ln[0] in "!Z" and ln not in seen and len(seen) < (3000 if thorough else 400):
                seen.add(ln)
                rows.append({"text": ln, "tag": "preprocessed:" + ln[0]})
    inp, trace = os.path.join(vlib.OUT, "c09-in.ndjson"), os.path.join(vlib.OUT, "c09-trace.ndjson")
    vlib.write_ndjson(inp, rows)
    vlib.run_vh(["lines", "-in", inp, "-out", trace], timeout=3000)
    res = tv("LineTrace", trace, timeout=3000)
    out = [json.loads(x) for x in open(trace)]
    log("[C09] %d lines round-tripped, validated in %.0fs, %d rejected" % (len(out), res["wall"], len(res["rejects"])))
    for rej in res["rejects"]:
        e = out[rej[0] - 1]
        wild = "wild" if e["text"][1:3] == "*." else "plain"
        sig = "%s|%s|%s" % (rej[1], e["tag"], wild)
        rep.violation(sig, "%s: line %r -> normal form %r -> %r (err=%r)" % (rej[1], e["text"], e["t1"], e["t2"], e["err"]), {"event": e})
    sres = tv("StoreTrace", strace, timeout=3000)
    log("[C09] %d files preprocessed and compiled twice, validated in %.0fs, %d rejected" % (len(sout), sres["wall"], len(sres["rejects"])))
    for rej in sres["rejects"]:
        e = sout[rej[0] - 1]
        nets = sum(1 for ln in srows[rej[0] - 1]["text"].split("\n") if ln.startswith("%"))
        sig = "preprocess:%s|%s|%s" % (rej[1], "v2" if e["v2"] else "v1", "many-subnets" if nets > 50 else "few-subnets")
        rep.violation(sig, "%s: preprocessed file compiles differently (%s keys, %d subnet lines): err=%r missing %s extra %s"
                      % (rej[1], "v2" if e["v2"] else "v1", nets, e["err"][:200], e["missing"][:3], e["extra"][:3]),
                      {"data_file": srows[rej[0] - 1]["text"][:20000], "event": {k: v for k, v in e.items() if k not in ("ref", "got", "pp")}})
    st = selftest()
    rep.cov = {"evaluations": len(out) + len(sout), "distinct_nontrivial": len({e["text"] for e in out if e["t1"] != e["text"]}) + len(sout),
               "rule": "lines = every abstract line of DataLine.tla rendered with ',' and ':' (+ the real preprocessor's range-point / SOA lines); files = seeded random worlds, "
                       "every 4th with 60-260 subnets in one map; non-trivial = distinct lines whose normal form differs from the text + preprocessed files",
               "samples": [{k: e[k] for k in ("text", "t1", "same")} for e in out[::max(1, len(out) // 3)][:3]], "abstract_lines": len(absl),
               "range_point_lines": sum(1 for r in rows if r["tag"] == "preprocessed:!"), "files": len(sout), "spec_states": g["distinct"],
               "selftest_corruption_rejected": st}
    rep.assumptions = ["TLC, the TLA+ Json module", "equality notion: the multiset of (key, value) pairs the codec emits for a line (same codec serial)"]
    if st is False:
        raise vlib.Infra("binding self-test failed")
    return rep.finish()


def selftest():
    path = os.path.join(vlib.OUT, "selftest-c09.ndjson")
    vlib.write_ndjson(path, [{"ev": "line", "text": "+a.z,1.2.3.4", "t1": "+a.z,1.2.3.4,,,,1", "t2": "+a.z,1.2.3.4,,,,1", "t1c": "+a.z,1.2.3.4,,,,1", "same": False, "err": ""},
                             {"ev": "line", "text": "+a.z,1.2.3.4", "t1": "+a.z,1.2.3.4,,,,1", "t2": "+a.z,1.2.3.4,,,,1", "t1c": "+a.z,1.2.3.4,,,,1", "same": True, "err": ""}])
    r = tv("LineTrace", path)
    return [x[0] for x in r["rejects"]] == [1]


def replay(path):
    d = json.load(open(path))
    print(json.dumps(d, indent=1)[:6000])
    return 0
