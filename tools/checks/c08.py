"""C08 - applying a diff gives the database of the new data file.

1. MC  : Diff.tla - for all pairs of files (bags of lines, one (key, value) pair emitted by several lines, repeated
         lines) the line diff applied as ONE batch (additions, then deletions) to Compile(A) equals Compile(B) as a map
         of multisets, in both diff orders; a diff that cannot be applied leaves the store unchanged.
2. RUN : real Preprocess -> compile A -> rdb.ApplyDiff(diff A->B) -> complete dump, against a fresh real compile of
         B; chains of 3-5 successive diffs; diff lines in forward / reverse / shuffled order; v1 and v2 keys; files that
         differ in records (added, removed, changed TTL / rdata), in duplicates (the same line twice, the same value
         from '=' and '+' lines) and in subnets (so the derived range-point lines move); diffs that must be refused
         (delete of an absent value / key, malformed line, unknown operation, over-long line): error + unchanged dump.
3. TV  : StoreTrace.tla compares the dumps as key -> multiset of values.
"""
import json
import os
import random

import vlib
import semlib
import semgen
from vlib import Scratch, tlc, tv, Report, log, tier, seed

SERIAL = 1700000000


def render(lines, rng):
    s = semlib.Script()
    s.file(lines, rng, sepmix=False)
    return s.rows[0]["text"]


def mutate(w, lines, rng):
    """the next version of a file: some lines dropped, some changed, some added, duplicates, subnets moved"""
    import copy
    out = []
    for l in lines:
        r = rng.random()
        if r < 0.12:
            continue
        c = copy.deepcopy(l)
        if r < 0.25 and c["t"] not in "M8%":
            c["ttl"] = rng.choice([-1, 5, 600])
        elif r < 0.32 and c["t"] == "+":
            c["_ip"] = "10.55.%d.%d" % (rng.randrange(256), rng.randrange(1, 255))
            c["ipf"], c["ipb"] = semlib.ip16(c["_ip"])
        out.append(c)
    w2 = semgen.gen_world(rng, nrec=6, with_maps=False)
    zone = w.zones[0]
    for l in w2.lines:
        if l["t"] in "+'C" and rng.random() < 0.6:
            c = copy.deepcopy(l)
            c["dom"] = semlib.nm("x%d.%s" % (rng.randrange(5), zone))
            out.append(c)
    if rng.random() < 0.6:
        for _ in range(rng.randrange(1, 4)):
            net = rng.choice(["10.%d.0.0/16" % rng.randrange(1, 9), "10.1.%d.0/24" % rng.randrange(4), "2001:db8:%x::/48" % rng.randrange(4), "0.0.0.0/0", "10.0.0.0/8"])
            n = semlib.net(rng.choice([1, 2, 3]), net, 0x6D31)
            if not any(x["t"] == "%" and x["_net"] == n["_net"] and x["map"] == n["map"] for x in out):
                out.append(n)
    return out


def dup_lines(text, rng):
    """textual duplicates: the same line twice, and the A record of a host from both an '=' and a '+' line"""
    t = text.split("\n")
    extra = []
    for l in t:
        if l.startswith("+") and rng.random() < 0.2:
            extra.append(l)
        if l.startswith("+") and not l.startswith("+*") and rng.random() < 0.15:
            extra.append("=" + l[1:].split(",")[0] + "," + l.split(",")[1])
    return "\n".join(t + extra)


def run():
    rep = Report("C08", "model_checking")
    thorough = tier() == "thorough"
    rng = random.Random(seed() * 8803 + 8)
    vlib.build_harness()
    with Scratch() as sc:
        sc.write("d.cfg", "SPECIFICATION Spec\nCONSTANTS NL = %d MaxMult = 2 Codec <- MCCodec\nINVARIANTS DiffApplies BadDiffIsNoop\nCHECK_DEADLOCK FALSE\n" % (5 if thorough else 4))
        r = tlc(sc, "DiffMC", "d.cfg", workers=16, timeout=3000)
    log("[C08] Diff.tla: %d file pairs: ApplyDiff(Compile(A), A->B) = Compile(B), failed diff is a no-op (%.0fs)" % (r["distinct"], r["wall"]))
    rows = []
    nid = 0
    for i in range(60 if thorough else 10):
        w = semgen.gen_world(rng, nrec=rng.choice([6, 20, 40]), default_routes=rng.random() < 0.3, with_ecs=rng.random() < 0.5)
        versions = [w.lines]
        for _ in range(rng.choice([1, 2, 2, 3, 4])):
            versions.append(mutate(w, versions[-1], rng))
        texts = [render(v, rng) for v in versions]
        if rng.random() < 0.5:
            texts = [dup_lines(t, rng) if rng.random() < 0.6 else t for t in texts]
        nid += 1
        rows.append({"ev": "diff", "id": nid, "texts": texts, "v2": bool(i % 2), "order": ["plain", "reverse", "shuffle"][i % 3], "serial": SERIAL,
                     "detail": True, "tag": "chain"})
    # deletion-only / deletions-first diffs whose lines expand to several records: the same key turns up in
    # non-adjacent deletions (two NS lines of one zone: NS under the zone key + A under each server's key)
    for i in range(12 if thorough else 4):
        zone = "ns%d.test" % i
        base = [".%s,10.%d.0.1,a,300" % (zone, i)] + ["&%s,10.%d.0.%d,%s,300" % (zone, i, k + 2, chr(98 + k)) for k in range(4)] \
               + ["@%s,10.%d.1.%d,m%d,%d,300" % (zone, i, k + 1, k, 10 * k) for k in range(3)] + ["=h%d.%s,10.%d.2.%d,60" % (k, zone, i, k + 1) for k in range(3)] \
               + ["+w.%s,10.%d.3.%d,60" % (zone, i, k + 1) for k in range(4)]
        v1 = list(base)
        rng.shuffle(v1)
        keep = [l for l in base if not (l.startswith("&") and rng.random() < 0.6) and not (l.startswith("@") and rng.random() < 0.5) and not (l.startswith("+w") and rng.random() < 0.5)]
        v2 = keep
        v3 = keep + ["&%s,10.%d.0.9,z,300" % (zone, i), "+w.%s,10.%d.3.9,60" % (zone, i)]
        v4 = [l.replace(",300", ",301") if l.startswith("&") else l for l in v3]           # changed records: -old / +new under one key
        nid += 1
        rows.append({"ev": "diff", "id": nid, "texts": ["\n".join(v) + "\n" for v in (v1, v2, v3, v4)], "v2": bool(i % 2), "order": ["plain", "reverse", "shuffle"][i % 3],
                     "serial": SERIAL, "detail": True, "tag": "ns-removal"})
    # diffs that must be refused
    base = render(semgen.gen_world(rng, nrec=15).lines, rng)
    first = next(l for l in base.split("\n") if l.startswith("+"))
    bad = [("delete-absent-value", "-+nosuch.name.test,10.1.2.3,60\n"), ("delete-absent-key-after-good-line", "++added.z,10.9.8.7,60\n-+absent.z,10.0.0.1\n"),
           ("malformed-line", "++ok.z,10.1.1.1\n+?garbage\n"), ("unknown-operation", "++ok.z,10.1.1.1\n*+x.z,10.1.1.2\n"),
           ("delete-twice", "-%s\n-%s\n" % (first, first)), ("bad-field", "++ok.z,10.1.1.1\n+%\\001\\001,10.0.0.0/40,\\155\\061\n"),
           ("overlong-line", "++ok.z,10.1.1.1\n+'long.z," + "x" * 70000 + "\n"),
           ("good-then-absent-value", "-%s\n-+%s,10.250.250.250\n" % (first, first[1:].split(",")[0]))]
    for v2 in (False, True):
        for tag, d in bad:
            nid += 1
            rows.append({"ev": "baddiff", "id": nid, "text": base, "diff": d, "v2": v2, "serial": SERIAL, "detail": True, "tag": tag})
    os.makedirs(vlib.OUT, exist_ok=True)
    inp, trace = os.path.join(vlib.OUT, "c08-in.ndjson"), os.path.join(vlib.OUT, "c08-trace.ndjson")
    vlib.write_ndjson(inp, rows)
    vlib.run_vh(["store", "-in", inp, "-out", trace], timeout=3400)
    res = tv("StoreTrace", trace, timeout=3000)
    out = [json.loads(x) for x in open(trace)]
    log("[C08] %d chains / refusals, %d diff applications, trace validated in %.0fs, %d rejected" % (len(rows), len(out), res["wall"], len(res["rejects"])))
    byid = {r["id"]: r for r in rows}
    for rej in res["rejects"]:
        e = out[rej[0] - 1]
        sig = "%s|%s|%s" % (rej[1], "v2" if e["v2"] else "v1", e["tag"])
        rep.violation(sig, "%s: %s (%s keys, order %s): err=%r; missing %s extra %s; diff:\n%s"
                      % (rej[1], e["tag"], "v2" if e["v2"] else "v1", e.get("order"), e["err"][:200], e["missing"][:3], e["extra"][:3], e["diff"][:600]),
                      {"input": byid[e["id"]], "event": {k: v for k, v in e.items() if k not in ("ref", "got")}})
    st = selftest(out)
    rep.cov = {"states": r["distinct"], "transitions": r["generated"], "traces_validated_against_impl": len(out),
               "samples": [{k: (v if k not in ("ref", "got") else "(%d keys)" % len(v)) for k, v in e.items()} for e in out[:2]],
               "evaluations": len(out), "distinct_nontrivial": len({(e["id"], e.get("step")) for e in out if e["ev"] == "diff" and e["ndiff"] > 2}) + sum(1 for e in out if e["ev"] == "baddiff"),
               "rule": "one evaluation = one real ApplyDiff on a real RocksDB followed by a complete dump, compared with a fresh compile (diff) or with the dump before "
                       "(refused diff); non-trivial = diff applications with more than 2 diff lines + refusal cases",
               "diff_lines_applied": sum(e.get("ndiff", 0) for e in out), "selftest_corruption_rejected": st}
    rep.assumptions = ["TLC, the TLA+ Json module", "line diffs are computed by the harness as multiset difference of the preprocessed files' lines"]
    if st is False:
        raise vlib.Infra("binding self-test failed")
    return rep.finish()


def selftest(out):
    import copy
    for e in out:
        if e["ev"] == "diff" and e.get("full") and e["refn"] > 3 and not e["err"]:
            c = copy.deepcopy(e)
            k = sorted(c["got"])[0]
            c["got"][k] = c["got"][k] + [c["got"][k][0]]
            path = os.path.join(vlib.OUT, "selftest-c08.ndjson")
            vlib.write_ndjson(path, [c])
            r = tv("StoreTrace", path)
            return any(x[0] == 1 for x in r["rejects"])
    return None


def replay(path):
    d = json.load(open(path))
    print(json.dumps(d, indent=1)[:6000])
    return 0
