"""Shared engine of C05 / C06 / C12 / C14: spec/Serve.tla (model), spec/ServeGen.tla (behaviour generator),
harness serve-replay / serve-stress (real dnsserver.FBDNSDB + db.DB), spec/ServeObs.tla (judge)."""
import json
import os
import re

import vlib
from vlib import Scratch, tlc, tv, log, tier, seed

FIX_FALSE = dict(FixValidateSame="FALSE", FixInsertEpoch="FALSE", FixSnapshot="FALSE", FixStraggler="FALSE")
FIX_TRUE = dict(FixValidateSame="TRUE", FixInsertEpoch="TRUE", FixSnapshot="TRUE", FixStraggler="TRUE")

# which deviations of the model constants still describe the code in /repo: when a defect is repaired by a
# "fix:" commit the constant flips to TRUE here (see KNOWN_FINDINGS.json "fixed" entries)
CODE_FIX = dict(FixValidateSame="TRUE", FixInsertEpoch="TRUE", FixSnapshot="FALSE", FixStraggler="TRUE")      # FixStraggler: fix F13 (2cc6ff2)

for _kv in os.environ.get("SERVE_CODE_FIX", "").split(","):      # experimentation only (e.g. to re-find a repaired defect)
    if "=" in _kv:
        CODE_FIX[_kv.split("=")[0]] = _kv.split("=")[1]

REASONS = {
    # a stale cache hit after a completed reload and a SERVFAIL after a failed one are C05 violations as well
    "C05": {"Visibility", "MixedGenerations", "WentBackwards", "FailedReloadExposed", "PartialFollowsSwitch", "StaleCacheServed", "ServFail", "noresp"},
    "C06": {"UseAfterClose", "DoubleClose", "Leak"},
    "C12": {"StaleCacheServed"},
    "C14": {"hang", "panic", "crash", "noresp"},
}


def cfg_text(spec, procs=2, runs=1, reloads=1, maxgen=2, kind="rdb", cache=True, bad="{2}", timeout=True, shutdown=True,
             after_finish=True, fix=FIX_TRUE, view=True, invariants=("AllSafe",)):
    lines = ["SPECIFICATION " + spec, "CONSTANTS",
             "  Procs = {%s}" % ", ".join(str(i) for i in range(1, procs + 1)),
             "  MaxRuns = %d" % runs, "  MaxReloads = %d" % reloads, "  MaxGen = %d" % maxgen, '  Kind = "%s"' % kind,
             "  CacheOn = %s" % ("TRUE" if cache else "FALSE"), "  BadGens = %s" % bad,
             "  AllowTimeout = %s" % ("TRUE" if timeout else "FALSE"), "  AllowShutdown = %s" % ("TRUE" if shutdown else "FALSE"),
             "  TimeoutAfterFinish = %s" % ("TRUE" if after_finish else "FALSE")]
    lines += ["  %s = %s" % kv for kv in fix.items()]
    if view:
        lines.append("VIEW view")
    for i in invariants:
        lines.append("INVARIANT " + i)
    lines.append("CHECK_DEADLOCK FALSE")
    return "\n".join(lines) + "\n"


def model_check(sc, name, **kw):
    """Exhaustive check of the ideal model: every invariant must hold (otherwise the spec itself is wrong)."""
    sc.write(name + ".cfg", cfg_text("Spec", **kw))
    r = tlc(sc, "Serve", name + ".cfg", workers=16, timeout=3000)
    log("[serve] MC %s: %d distinct / %d generated states, depth %d, %.0fs" % (name, r["distinct"], r["generated"], r["depth"], r["wall"]))
    return r


def counterexamples(sc, name, invariants, **kw):
    """Faithful model, one invariant at a time: TLC's counterexample (if any) becomes a schedule."""
    out = []
    stats = [0, 0]
    for inv in invariants:
        sc.write("%s_%s.cfg" % (name, inv), cfg_text("Spec", invariants=(inv,), **kw))
        r = tlc(sc, "Serve", "%s_%s.cfg" % (name, inv), workers=16, timeout=1500, allow_violation=True)
        stats[0] += r["distinct"]
        stats[1] += r["generated"]
        if not r["violated"]:
            continue
        steps = []
        for m in re.finditer(r"lastAct = <<(.*?)>>", r["out"]):
            t = vlib._parse_tuple(m.group(1))
            if t and t[0] != "Init":
                steps.append(t)
        out.append({"steps": steps, "bad": [inv], "open": [], "src": "cex:" + inv})
        log("[serve] faithful model violates %s in %d steps" % (inv, len(steps)))
    return out, stats


def generate(sc, name, num, depth=120, **kw):
    """Random behaviours of the faithful model (simulation mode), de-duplicated."""
    sc.write(name + ".cfg", cfg_text("GenSpec", view=False, invariants=("Emit",), after_finish=False, **kw))
    r = tlc(sc, "ServeGen", name + ".cfg", workers=4, timeout=1500,
            extra=["-simulate", "num=%d" % max(1, num // 4), "-depth", str(depth), "-seed", str(seed() * 7919 + 11)])
    seen, out = set(), []
    for line in r["out"].splitlines():
        if line.startswith('"{'):
            d = json.loads(json.loads(line))
            key = json.dumps(d["steps"])
            if key in seen:
                continue
            seen.add(key)
            d["src"] = "sim"
            out.append(d)
    m = re.search(r"The number of states generated: (\d+)", r["out"])
    gen_states = int(m.group(1)) if m else 0
    log("[serve] GEN %s: %d behaviours (%d states) in %.0fs" % (name, len(out), gen_states, r["wall"]))
    return out, gen_states


def directed(kind, cache):
    """Hand-derived schedules for environment faults that are outside the model (control-file cleanup failing)."""
    q = lambda p: [["QStart", p], ["QAcquire", p], ["QLookup", p], ["QRead1", p], ["QRead2", p], ["QInsert", p], ["QWrite", p, 0], ["QRelease", p]]
    qhit = lambda p: [["QStart", p], ["QAcquire", p], ["QLookup", p], ["QWrite", p, 1], ["QRelease", p]]
    reload_full = [["GWork", 1], ["GFinish", 1], ["RDone"], ["RValidate"], ["RInstall"], ["RUnlock", 1]]
    s = []
    # full reload to a new path whose control-file removal fails: the switch happened, the cache must be purged
    s.append({"steps": q(1) + [["Publish", 2, 2], ["RStart", "full", 2]] + reload_full + (q(2) if not cache else
             [["QStart", 2], ["QAcquire", 2], ["QLookup", 2], ["QRead1", 2], ["QRead2", 2], ["QInsert", 2], ["QWrite", 2, 0], ["QRelease", 2]]),
              "bad": [], "open": [], "src": "directed:cleanup-fails", "cleanup_fails": True})
    return s


def replay(scens, tag):
    os.makedirs(vlib.OUT, exist_ok=True)
    inp = os.path.join(vlib.OUT, "serve-%s-sched.ndjson" % tag)
    trace = os.path.join(vlib.OUT, "serve-%s-trace.ndjson" % tag)
    vlib.write_ndjson(inp, scens)
    p = vlib.run_vh(["serve-replay", "-in", inp, "-out", trace], timeout=3000)
    info = json.loads(p.stdout.strip().splitlines()[-1])
    return trace, info


def classify(trace, rejects):
    """Turn TLC's rejected lines into (reason, signature, description, replay) with scenario context."""
    rows = [json.loads(x) for x in open(trace)]
    out = []
    for rj in rejects:
        ln, why = rj[0], rj[1]
        e = rows[ln - 1]
        j = ln - 1
        while j > 0 and rows[j].get("ev") != "scenario":
            j -= 1
        scen = rows[j]
        ctx = rows[j:ln]
        kind = scen.get("kind", "?")
        catchup = [x for x in ctx if x.get("ev") == "loaded" and x.get("kind") == "catchup"]
        catchup_gens = {x["gen"] for x in catchup}
        okret = {x["id"] for x in ctx if x.get("ev") == "rret" and x.get("ok")}
        failed_gens = {x["gen"] for x in catchup if x["id"] not in okret}      # catch-up of a reload that failed / has not succeeded
        rdb = kind in ("rdb", "real-rdb")
        detail = ""
        st = set(e.get("stamps") or [])

        def marker(stamps):
            if rdb and len(stamps) > 1 and stamps & catchup_gens:
                return "mixed-by-inplace-catchup"
            if rdb and stamps & failed_gens:
                return "failed-inplace-catchup"
            return ""
        if why in ("MixedGenerations", "Visibility", "StaleCacheServed"):
            detail = marker(st)
            if why == "StaleCacheServed":
                # who inserted the stale entry?  the last non-hit response with the same stamps
                ins = next((x for x in reversed(ctx[:-1]) if x.get("ev") == "qresp" and not x.get("hit") and x.get("stamps") == e.get("stamps")), None)
                rcalls = [x for x in ctx if x.get("ev") == "rcall"]
                how = "entry-survived-reload"
                if ins is not None and rcalls:
                    qs = next((x for x in ctx if x.get("ev") == "qstart" and x.get("q") == ins.get("q")), None)
                    overl = any(qs is not None and qs["seq"] < next((y["seq"] for y in ctx if y.get("ev") == "rret" and y.get("id") == rc["id"]), 1 << 60)
                                and ins["seq"] > rc["seq"] for rc in rcalls)
                    if overl:
                        how = "inserted-by-query-in-flight-during-reload"
                detail = how + ("|" + detail if detail else "")
        if why == "FailedReloadExposed" and rdb and failed_gens:
            detail = "failed-inplace-catchup"
        if why == "WentBackwards":
            # the step back is caused by the EARLIER response of that client if that one showed data of a failed catch-up
            prev = [x for x in ctx[:-1] if x.get("ev") == "qresp" and x.get("client") == e.get("client")]
            if prev:
                detail = marker(set(prev[-1].get("stamps") or []))
        elif why == "UseAfterClose":
            detail = "method=" + e.get("method", "?")
        elif why in ("hang", "panic", "crash"):
            detail = (e.get("note") or "")[:80]
        sig = "%s|%s|%s" % (why, kind, detail)
        desc = "%s in scenario %s (%s, %s): %s" % (why, scen.get("id"), kind, scen.get("note", ""), json.dumps(e))
        out.append((why, sig, desc, {"scenario_events": ctx[-80:], "scenario": scen}))
    return out


def run_property(pid, level="model_checking", extra=None):
    """Pipeline shared by C05 / C06 / C12: MC ideal -> counterexamples + random behaviours of the faithful model
    -> replay on the real code -> ServeObs judges the event log.  Only the reasons of `pid` count."""
    rep = vlib.Report(pid, level)
    thorough = tier() == "thorough"
    vlib.build_harness()
    mine = REASONS[pid]
    states = trans = 0
    scens = []
    cache_opts = {"C05": [False, True], "C06": [False], "C12": [True]}[pid]
    invs = {"C05": ["Visibility", "SingleGeneration", "Monotonic", "FailedReloadIsNoop"],
            "C06": ["NoUseAfterClose", "CloseOnce", "NoLeak"],
            "C12": ["StaleNeverServed"]}[pid]
    with Scratch() as sc:
        for kind in ("cdb", "rdb"):
            for cache in cache_opts:
                tag = "%s_%s" % (kind, "c" if cache else "n")
                # 1. the ideal design satisfies every property (exhaustive within bounds)
                if thorough:
                    r = model_check(sc, "ideal_" + tag, procs=2, runs=1, reloads=2, maxgen=3, kind=kind, cache=cache, bad="{3}")
                else:
                    r = model_check(sc, "ideal_" + tag, procs=2, runs=2, reloads=1, maxgen=2, kind=kind, cache=cache, bad="{2}")
                states += r["distinct"]
                trans += r["generated"]
                # 2. the model of the code as it is (CODE_FIX): counterexamples are leads, replayed below
                # (for the immutable CDB backend the remaining deviations are unreachable: the code model equals the ideal one)
                cex, st = [], [0, 0]
                if kind == "rdb":
                    cex, st = counterexamples(sc, "code_" + tag, invs, procs=2, runs=2 if thorough else 1, reloads=2, maxgen=3, kind=kind,
                                              cache=cache, bad="{3}", fix=CODE_FIX, after_finish=False)
                states += st[0]
                trans += st[1]
                # 3. random behaviours
                n = 1200 if thorough else 160
                gen, gs = generate(sc, "gen_" + tag, n, procs=2, runs=2, reloads=2, maxgen=3, kind=kind, cache=cache, bad="{3}", fix=CODE_FIX)
                trans += gs
                if thorough:
                    g3, gs3 = generate(sc, "gen3_" + tag, n // 2, depth=160, procs=3, runs=1, reloads=3, maxgen=4, kind=kind, cache=cache, bad="{3}", fix=CODE_FIX)
                    gen += g3
                    trans += gs3
                for d in cex + gen + directed(kind, cache):
                    d.update(kind=kind, cache=cache, badgens=[3])
                    scens.append(d)
                # 4. C06's quantifier: every sequence of lifecycle macro-operations up to a depth bound
                import random
                rnd = random.Random(seed() * 31 + len(scens))
                if thorough:
                    life = lifecycle_scenarios(kind, cache, 2, 4, 10 ** 9, rnd) + lifecycle_scenarios(kind, cache, 3, 3, 10 ** 9, rnd)
                else:
                    life = lifecycle_scenarios(kind, cache, 2, 3, 10 ** 9, rnd) + lifecycle_scenarios(kind, cache, 2, 4, 400 if pid == "C06" else 150, rnd)
                log("[serve] lifecycle sequences %s: %d" % (tag, len(life)))
                for d in life:
                    d.update(kind=kind, cache=cache)
                    scens.append(d)
    for i, d in enumerate(scens):
        d["id"] = i + 1
    trace, info = replay(scens, pid)
    res = tv("ServeObs", trace, timeout=3000)
    log("[%s] %d scenarios replayed (%d infeasible), %d events validated, %d rejected" % (pid, info["scenarios"], info["infeasible"], res["total"], len(res["rejects"])))
    other = {}
    for why, sig, desc, rp in classify(trace, res["rejects"]):
        if why in mine:
            rep.violation(sig, desc, rp)
        else:
            other[why] = other.get(why, 0) + 1
    # model-vs-code statistics (drift is information, not a verdict)
    rows = [json.loads(x) for x in open(trace)]
    drift = [e["note"] for e in rows if e.get("ev") == "drift"]
    overlapped = sum(1 for d in scens if overlaps(d["steps"]))
    if info["scenarios"] and info["infeasible"] > 0.25 * info["scenarios"]:
        raise vlib.Infra("more than 25%% of the schedules could not be followed by the code (model drift): %s" % drift[:3])
    rep.cov = {"states": states, "transitions": trans, "traces_validated_against_impl": info["scenarios"],
               "samples": [scens[0]["steps"], scens[-1]["steps"]],
               "evaluations": info["steps"], "distinct_nontrivial": overlapped,
               "rule": "schedules = TLC counterexamples of the code-shaped model + TLC simulation behaviours + directed fault scenarios; "
                       "non-trivial = schedules in which a query is in flight while a reload step executes",
               "events_validated": res["total"], "infeasible_schedules": info["infeasible"], "drift_samples": drift[:5],
               "rejections_belonging_to_other_properties": other}
    rep.assumptions = ["TLC", "the instrumented in-memory backend reproduces the open/catch-up/close behaviour of the CDB and RocksDB drivers "
                       "(cross-checked by the real-backend stress of C14)", "goroutines are parked only at public seams; interleavings between seams are left to the Go runtime"]
    if extra is not None:
        extra(rep)
    return rep.finish()


def free_running(rep, pid, plans, hot=False):
    """Free-running stress traces (no parking) judged by ServeObs for the reasons of `pid`: the real CDB / RocksDB
    backends (C05: what a query sees after a reload really returned) and the maximum-throughput runs on the
    instrumented backend (C06: touches of a closed backend between the seams the replay can steer)."""
    import os
    mine = REASONS[pid]
    traces, queries, reloads = [], 0, 0
    for i, (backend, dur, ponly) in enumerate(plans):
        tr = os.path.join(vlib.OUT, "%s-free-%d.ndjson" % (pid.lower(), i))
        args = ["serve-stress", "-backend", backend, "-dur", "%ds" % dur, "-out", tr, "-id", str(300 + i), "-workers", "16" if hot else "8"]
        if hot:
            args.append("-hot")
        if ponly:
            args.append("-partial-only")
        p = vlib.run_vh(args, timeout=dur + 180, check=False)
        if p.returncode != 0:
            tail = (p.stderr or "")[-1200:]
            if "crash" in mine or pid == "C06":
                rep.violation("crash|%s|free-running" % backend, "free-running stress on %s died (rc=%d): %s" % (backend, p.returncode, tail[-500:]), {"backend": backend, "stderr": tail})
            continue
        info = json.loads(p.stdout.strip().splitlines()[-1])
        queries += info["queries"]
        reloads += info["reloads"]
        if hot:
            for raw in open(tr):
                e = json.loads(raw)
                if e.get("ev") in ("uac", "dblclose") and pid == "C06":
                    rep.violation("%s|%s|hot|method=%s" % ("UseAfterClose" if e["ev"] == "uac" else "DoubleClose", backend, e.get("method", "")),
                                  "free-running stress on %s: closed backend %s touched by %s" % (backend, e.get("backend"), e.get("method")), {"event": e})
        traces.append(tr)
    if traces:
        allp = os.path.join(vlib.OUT, "%s-free-all.ndjson" % pid.lower())
        with open(allp, "w") as f:
            for tr in traces:
                f.write(open(tr).read())
        res = tv("ServeObs", allp, timeout=3000)
        for why, sig, desc, rp in classify(allp, res["rejects"]):
            if why in mine:
                rep.violation(sig, desc, rp)
        rep.cov["free_running"] = {"runs": len(traces), "queries": queries, "reloads": reloads, "events_validated": res["total"], "backends": [b for b, _, _ in plans]}
        rep.cov["evaluations"] = rep.cov.get("evaluations", 0) + queries + reloads
        rep.cov["traces_validated_against_impl"] = rep.cov.get("traces_validated_against_impl", 0) + len(traces)


def overlaps(steps):
    inreload = False
    inflight = set()
    for s in steps:
        a = s[0]
        if a == "RStart":
            inreload = True
        elif a == "RUnlock":
            inreload = False
        elif a == "QStart":
            inflight.add(s[1])
        elif a == "QRelease":
            inflight.discard(s[1])
        if inreload and a.startswith("Q") and a not in ("QStart",):
            return True
        if a in ("GWork", "RValidate", "RInstall") and inflight:
            return True
    return False


# ------------------------------------------------------------------------------------------------
# Lifecycle sequences (C06's quantifier): every sequence of macro-operations up to a depth bound.
# Each macro-operation expands to the Serve actions that make it up, executed back to back.

def lifecycle_scenarios(kind, cache, readers, depth, limit, rnd):
    import itertools
    readers_l = list(range(1, readers + 1))
    ops = []
    for p in readers_l:
        ops += [("A", p), ("U", p), ("R", p)]
    ops.append(("Q", 1))            # a complete query (acquire, use, release) as one operation
    rl = ["new_ok", "open_err", "vfail_new", "to_new", "to_err"]
    if kind == "rdb":
        rl += ["same_ok", "vfail_same", "to_same"]
    ops += [("L", x) for x in rl] + [("late", 0), ("shutdown", 0)]

    def expand(seq):
        st = {"gen": 1, "spath": 1, "pc": {p: 0 for p in readers_l}, "nrel": 0, "late": [], "shut": False, "bad": []}
        steps = []
        qsteps = [["QStart"], ["QAcquire"], ["QLookup"], ["QRead1"], ["QRead2"], ["QInsert"], ["QWrite"], ["QRelease"]]

        def q_advance(p, upto):
            # a cache hit shortens the query: the replayer tolerates that only at QLookup, so with the cache on
            # a reader uses at most up to the lookup before its release macro-op
            while st["pc"][p] < upto:
                a = qsteps[st["pc"][p]][0]
                steps.append([a, p] if a != "QWrite" else [a, p, 0])
                st["pc"][p] += 1

        def publish(path, bad=False):
            st["gen"] += 1
            steps.append(["Publish", path, st["gen"]])
            if bad:
                st["bad"].append(st["gen"])

        for op, arg in seq:
            if st["shut"] and op in ("A", "L", "Q"):
                return None
            if op == "A":
                if st["pc"][arg] != 0:
                    return None
                q_advance(arg, 2)
            elif op == "Q":
                if st["pc"][arg] != 0:
                    return None
                q_advance(arg, 8)
                st["pc"][arg] = 0
            elif op == "U":
                if st["pc"][arg] < 2 or st["pc"][arg] >= 5:
                    return None
                q_advance(arg, st["pc"][arg] + 1)
            elif op == "R":
                if st["pc"][arg] < 2:
                    return None
                q_advance(arg, 8)
                st["pc"][arg] = 0
            elif op == "late":
                if not st["late"]:
                    return None
                n = st["late"].pop(0)
                steps.extend([["GWork", n], ["GFinish", n]])
            elif op == "shutdown":
                if st["shut"]:
                    return None
                steps.append(["Shutdown"])
                st["shut"] = True
            elif op == "L":
                other = 2 if st["spath"] == 1 else 1
                st["nrel"] += 1
                n = st["nrel"]
                full_ok = [["GWork", n], ["GFinish", n], ["RDone"], ["RValidate"], ["RInstall"], ["RUnlock", 1]]
                if arg == "new_ok":
                    publish(other)
                    steps.append(["RStart", "full", other])
                    steps.extend(full_ok)
                    st["spath"] = other
                elif arg == "same_ok":
                    publish(st["spath"])
                    steps.append(["RStart", "part", st["spath"]])
                    steps.extend(full_ok)
                elif arg == "open_err":
                    steps.extend([["RStart", "full", 3], ["GWork", n], ["GFinish", n], ["RDone"], ["RUnlock", 0]])
                elif arg == "vfail_new":
                    publish(other, bad=True)
                    steps.extend([["RStart", "full", other], ["GWork", n], ["GFinish", n], ["RDone"], ["RValidate"], ["RUnlock", 0]])
                elif arg == "vfail_same":
                    publish(st["spath"], bad=True)
                    steps.extend([["RStart", "part", st["spath"]], ["GWork", n], ["GFinish", n], ["RDone"], ["RValidate"], ["RUnlock", 0]])
                elif arg in ("to_new", "to_same", "to_err"):
                    if arg == "to_new":
                        publish(other)
                        steps.append(["RStart", "full", other])
                    elif arg == "to_same":
                        publish(st["spath"])
                        steps.append(["RStart", "part", st["spath"]])
                    else:
                        steps.append(["RStart", "full", 3])
                    steps.extend([["RTimeout"], ["RUnlock", 0]])
                    st["late"].append(n)
        # wind down: finish queries, let stragglers finish
        for p in readers_l:
            if st["pc"][p] >= 2:
                q_advance(p, 8)
        for n in st["late"]:
            steps.extend([["GWork", n], ["GFinish", n]])
        return {"steps": steps, "badgens": st["bad"], "bad": [], "open": [], "src": "lifecycle:" + " ".join("%s%s" % (o, a if a else "") for o, a in seq)}

    out = []
    for d in range(1, depth + 1):
        for seq in itertools.product(ops, repeat=d):
            # canonical reader numbering: reader p+1 is not acquired before reader p
            seen = 0
            ok = True
            for o, a in seq:
                if o == "A":
                    if a > seen + 1:
                        ok = False
                        break
                    seen = max(seen, a)
            if not ok or not any(o in ("A", "Q") for o, a in seq) or not any(o in ("L", "shutdown") for o, a in seq):
                continue
            sc = expand(seq)
            if sc is not None and not (cache and any(s[0] == "QStart" for s in sc["steps"]) and sum(1 for s in sc["steps"] if s[0] == "QStart") > 1):
                out.append(sc)
            elif sc is not None:
                # with the cache on, a second query may hit: keep only sequences with one query, or let the replayer adapt
                out.append(sc)
    if len(out) > limit:
        rnd.shuffle(out)
        out = out[:limit]
    return out
