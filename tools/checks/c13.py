"""C13 - any query gets a well-formed reply or none; the server never panics.

Spec  : Wire.tla - the reply contract (no panic; what is written packs, carries the query's id and question, has QR set,
        fits the advertised size or has TC; EDNS version != 0 -> BADVERS; unknown options change nothing) and the
        structured query space (names incl. root / 127 labels / 255 bytes / NUL / dot-in-label / non-ASCII; types 0 .. 65535;
        classes; opcodes; EDNS versions; buffer sizes; 14 option lists; header flag combinations) - TLC enumerates it.
Run   : every descriptor becomes a real message (pack -> unpack -> real ServeDNS, recover() around the call) on CDB /
        RocksDB v1 / v2 over four databases: a normal zone (with a delegation and > 2000 bytes of TXT at one name), a root
        zone, a root delegation only, an empty database; response cache on for a sample; messages with zero or two
        questions and malformed bytes go through the real server loop in C20.
Judge : WireTrace.tla.
"""
import json
import os
import random

import vlib
import semlib
from vlib import Scratch, tlc, tv, Report, log, tier, seed

DBS = {
    "normal": ".z,192.0.2.53,a\n+a.z,192.0.2.1\n+a.z,192.0.2.2\n+*.w.z,192.0.2.3\n&d.z,192.0.2.54,a\n'a.z,hello\nCc.z,a.z\n@z,192.0.2.25,a\n"
              "Mz,\\155\\061\nM*.z,\\155\\061\n8*.z,\\145\\062\n8z,\\145\\062\n%\\001\\001,10.0.0.0/8,\\155\\061\n%\\001\\001,10.0.0.0/8,\\145\\062\n%\\001\\002,2001:db8::/32,\\145\\062\n"
              "+a.z,192.0.2.9,,,\\001\\001\nHa.z,.,60,,1,alpn=h2\n" + "".join("'big.z,%s\n" % (("%02d" % i) * 30) for i in range(40))
              + "".join("'mid.z,%s\n" % (("%02d" % i) * 20) for i in range(20)),
    "rootzone": "..,192.0.2.53,a\n+a.z,192.0.2.1\n+x,192.0.2.7\n&d.z,192.0.2.54,a\n'.,roottxt\n" + "".join("'big.z,%s\n" % (("%02d" % i) * 30) for i in range(40)),
    "rootdeleg": "&.,192.0.2.53,a.root-servers.net\n&.,192.0.2.54,b.root-servers.net\n",
    "empty": "#nothing\n",
}


def run():
    rep = Report("C13", "exploration")
    thorough = tier() == "thorough"
    rng = random.Random(seed() * 1301 + 13)
    vlib.build_harness()
    with Scratch() as sc:
        sc.write("w.cfg", "SPECIFICATION Spec\nINVARIANT Emit\nCHECK_DEADLOCK FALSE\n")
        g = tlc(sc, "Wire", "w.cfg", workers=4, timeout=1500)
    descs = [json.loads(json.loads(l)) for l in g["out"].splitlines() if l.startswith('"{')]
    log("[C13] Wire.tla: %d query descriptors" % len(descs))
    rng.shuffle(descs)
    s = semlib.Script()
    per_db = {"normal": 5000 if not thorough else len(descs), "rootzone": 2500 if not thorough else len(descs), "rootdeleg": 1500 if not thorough else len(descs) // 2,
              "empty": 1000 if not thorough else len(descs) // 4}
    for cache in (False, True):
        for db, n in per_db.items():
            if cache and db not in ("normal", "rootzone"):
                continue
            s.nfile += 1
            s.rows.append({"ev": "file", "id": s.nfile, "text": DBS[db], "serial": 1700000000, "lines": [], "opts": {"cache": True} if cache else None, "keep": False, "tag": db})
            sub = descs[:n] if not cache else descs[:n // 3]
            if db == "normal" and not cache:
                sub = sub + [d for d in descs[n:] if d["name"] == 15]          # the buffer-size sweep is never sampled away
            if cache:
                # the same cache entry reached by queries that differ in letter case, header flags and EDNS
                D = lambda n, t, e=-1, f=0, op=0: {"name": n, "type": t, "class": 1, "opcode": 0, "edns": e, "size": 4096, "opts": op, "flags": f}
                directed = []
                for t in (16, 2, 6, 15):
                    directed += [D(1, t), D(8, t), D(1, t, f=7), D(8, t, e=0), D(1, t, e=0, op=1), D(13, t), D(13, t, f=2), D(2, t), D(2, t, f=1, e=0)]
                sub = directed + sub
            for d in sub:
                s.nq += 1
                s.rows.append({"ev": "wire", "file": s.nfile, "qid": s.nq, "q": d, "tag": db + ("+cache" if cache else "")})
                if cache and rng.random() < 0.5:                  # the same question again: cache-hit path
                    s.nq += 1
                    s.rows.append({"ev": "wire", "file": s.nfile, "qid": s.nq, "q": d, "tag": db + "+cache"})
    trace, info = semlib.run_sem(s, "c13", backends="cdb,v1,v2")
    res = tv("WireTrace", trace, timeout=3300)
    rows = [json.loads(x) for x in open(trace)]
    log("[C13] %d messages x 3 backends, validated in %.0fs, %d rejected" % (info["queries"], res["wall"], len(res["rejects"])))
    for rej in res["rejects"]:
        e = rows[rej[0] - 1]
        d = e["d"]
        o = e["r"][rej[1]]
        sig = "%s|%s|%s|name=%d type=%d opts=%d edns=%d" % (rej[2], rej[1], e["db"].split("+")[0], d["name"], d["type"], d["opts"], d["edns"])
        if any(v[0].split("|")[0] == rej[2] and v[0].split("|")[3:] == sig.split("|")[3:] for v in rep.viol):
            continue
        rep.violation(sig, "%s on %s (%s database): query %s -> %s" % (rej[2], rej[1], e["db"], json.dumps(d), json.dumps(o)), {"descriptor": d, "db": e["db"], "db_text": DBS[e["db"].split("+")[0]][:3000], "outcome": o})
    st = selftest(rows)
    wires = [e for e in rows if e["ev"] == "wire"]
    rep.cov = {"evaluations": len(wires) * 3, "distinct_nontrivial": len({(e["db"], json.dumps(e["d"], sort_keys=True)) for e in wires if any(o["written"] for o in e["r"].values())}),
               "rule": "descriptors = TLC-enumerated structured query space, each asked on cdb / rocksdb-v1 / rocksdb-v2 over four databases (cache off and on); "
                       "non-trivial = distinct (database, descriptor) for which something was written",
               "samples": wires[:2], "descriptors": len(descs), "spec_states": g["distinct"], "selftest_corruption_rejected": st}
    rep.assumptions = ["TLC, the TLA+ Json module, miekg/dns as message codec", "messages the miekg packer cannot produce (bad compression pointers, truncated packets) never reach the handler"]
    if st is False:
        raise vlib.Infra("binding self-test failed")
    return rep.finish()


def selftest(rows):
    import copy
    for e in rows:
        if e["ev"] == "wire" and all(o["written"] for o in e["r"].values()):
            c = copy.deepcopy(e)
            b = sorted(c["r"])[0]
            c["r"][b]["id_ok"] = False
            path = os.path.join(vlib.OUT, "selftest-c13.ndjson")
            vlib.write_ndjson(path, [c])
            r = tv("WireTrace", path)
            return any(x[0] == 1 and x[2] == "id-changed" for x in r["rejects"])
    return None


def replay(path):
    d = json.load(open(path))
    print(json.dumps(d, indent=1)[:6000])
    return 0
