"""C06: servelib.run_property (Serve model / replay / ServeObs) + the control plane at shutdown (Control.tla):
periodic reloader and watchers -> ReloadChan -> consumer goroutine -> Reload, against Close.  The code-shaped variant of
the model is checked for NoReloadAfterDestroy (holds since fix F20) and Termination; its remaining counterexample
(send on the closed ReloadChan when a tick and Close coincide) is a lead that could not be reproduced on the real code
and is therefore not reported.  The scenario 'Close while the producer is blocked in its send' is replayed on the real
FBDNSDB (NewFBDNSDB with a 1 s periodic reload over the instrumented backend whose Reload is held at a gate)."""
import json
import os
import subprocess

import servelib
import vlib
from vlib import Scratch, tlc, tv, log, tier


def control(rep, pid="C06"):
    thorough = tier() == "thorough"
    with Scratch() as sc:
        base = "SPECIFICATION Spec\nCONSTANTS Producers = {%s} SelectSend = %s ReloadChecksDone = %s MaxTicks = %d\n"
        sc.write("ideal.cfg", base % ("1, 2", "TRUE", "TRUE", 4 if thorough else 3) + "INVARIANTS NoSendOnClosedChannel NoReloadAfterDestroy\nPROPERTY Termination\n")
        r1 = tlc(sc, "Control", "ideal.cfg", workers=8, timeout=1500)
        sc.write("code.cfg", base % ("1, 2", "FALSE", "TRUE", 4 if thorough else 3) + "INVARIANTS NoReloadAfterDestroy\nPROPERTY Termination\n")
        r2 = tlc(sc, "Control", "code.cfg", workers=8, timeout=1500)
        sc.write("lead.cfg", base % ("1", "FALSE", "TRUE", 2) + "INVARIANTS NoSendOnClosedChannel\n")
        r3 = tlc(sc, "Control", "lead.cfg", workers=4, timeout=600, allow_violation=True)
    log("[control] Control.tla: repaired design %d states ok; code variant %d states: no reload after destroy, terminates; send-on-closed-channel lead: %s"
        % (r1["distinct"], r2["distinct"], r3["violated"]))
    trace = os.path.join(vlib.OUT, "%s-control.ndjson" % pid.lower())
    rows = []
    for i in range(4 if thorough else 1):
        one = os.path.join(vlib.OUT, "%s-control-%d.ndjson" % (pid.lower(), i))
        p = vlib.run_vh(["control", "-out", one, "-hold", str(1300 + 150 * i)], timeout=120, check=False)
        if p.returncode != 0:
            tail = (p.stderr or "")[-1500:]
            if "send on closed channel" in tail or "panic:" in tail or "fatal error" in tail:
                if pid == "C14":          # a crash at shutdown is C14's business; C06 only judges what happens to the backends
                    rep.violation("crash|control|" + ("send-on-closed-channel" if "send on closed channel" in tail else "panic"),
                                  "the control plane crashed at shutdown: " + tail[-700:], {"stderr": tail})
                continue
            raise vlib.Infra("control driver failed: " + tail[-800:])
        rows += [json.loads(x) for x in open(one)]
    vlib.write_ndjson(trace, rows)
    if rows:
        res = tv("ControlTrace", trace)
        for rej in res["rejects"]:
            e = rows[rej[0] - 1]
            rep.violation("%s|control|%s" % (rej[1], e.get("scenario")), "control plane scenario %s: %s" % (e.get("scenario"), json.dumps(e)), {"events": rows})
    rep.cov["control_plane"] = {"states": r1["distinct"] + r2["distinct"] + r3["distinct"], "replays": len([r for r in rows if r["ev"] == "control"]),
                                "unreproduced_lead": "NoSendOnClosedChannel (%s)" % r3["violated"]}
    rep.cov["states"] = rep.cov.get("states", 0) + r1["distinct"] + r2["distinct"]
    rep.cov["transitions"] = rep.cov.get("transitions", 0) + r1["generated"] + r2["generated"]


def lifecycle_proof(rep):
    """Apalache: IndInv of spec/Lifecycle.tla is inductive and implies the three C06 properties - the reference-counting
    core for ANY number of readers and reloads (TLC covers 2-3 readers)."""
    obligations = [("Init => IndInv", ["--init=Init", "--inv=IndInv", "--length=0"]),
                   ("IndInv /\\ Next => IndInv'", ["--init=IndInit", "--inv=IndInv", "--length=1"]),
                   ("IndInv => CloseOnce /\\ NoUseAfterClose /\\ ClosedWhenDone", ["--init=IndInit", "--inv=Safety", "--length=0"])]
    done = 0
    with Scratch() as sc:
        for name, args in obligations:
            p = subprocess.run(["timeout", "600", "apalache-mc", "check", "--out-dir=" + sc.path("apa-out")] + args + ["Lifecycle.tla"], cwd=sc.dir,
                               stdout=subprocess.PIPE, stderr=subprocess.STDOUT, text=True)
            if "EXITCODE: OK" in p.stdout:
                done += 1
            else:
                raise vlib.Infra("Apalache did not discharge '%s':\n%s" % (name, "\n".join(p.stdout.splitlines()[-15:])))
    log("[C06] Lifecycle.tla: %d/%d proof obligations discharged by Apalache (unbounded readers / reloads)" % (done, len(obligations)))
    rep.cov["lifecycle_inductive_invariant"] = {"obligations": len(obligations), "discharged": done, "checker_cmd": "apalache-mc check --init=IndInit --inv=IndInv --length=1 Lifecycle.tla (and two more)",
                                                "what": [o[0] for o in obligations]}


def both(rep):
    control(rep)
    lifecycle_proof(rep)
    # maximum-throughput runs on the instrumented backend: acquisitions racing with reloads between the seams
    t = 10 if tier() == "thorough" else 3
    servelib.free_running(rep, "C06", [("sim-cdb", t, False), ("sim-rdb", t, False), ("sim-rdb", t, True)], hot=True)


def run():
    return servelib.run_property("C06", extra=both)


def replay(path):
    d = json.load(open(path))
    print(json.dumps(d, indent=1)[:6000])
    return 0
