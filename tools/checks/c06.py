"""C06: servelib.run_property (Serve model / replay / ServeObs) + the control plane at shutdown (Control.tla):
periodic reloader and watchers -> ReloadChan -> consumer goroutine -> Reload, against Close.  The code-shaped variant of
the model (select-send, fix F21; Reload checks done, fix F20) is checked for NoSendOnClosedChannel, NoReloadAfterDestroy
and Termination; the variant with the plain send must still produce its counterexample (the model tells them apart).
The counterexample's scenario 'Close while the producer is blocked in its send' is replayed on the real FBDNSDB
(NewFBDNSDB with a 1 s periodic reload over the instrumented backend whose Reload is held at a gate), several instances
at once: a crash is C14's violation, a reload on the destroyed backend is C06's."""
import concurrent.futures
import json
import os
import subprocess

import servelib
import vlib
from vlib import Scratch, tlc, tv, log, tier


def control(rep, pid="C06"):
    thorough = tier() == "thorough"
    with Scratch() as sc:
        base = "SPECIFICATION Spec\nCONSTANTS Producers = {%s} SelectSend = %s ReloadChecksDone = %s MaxTicks = %d\n"
        # the code (since fix F21): select-send, consumer watches done, ReloadChan is never closed
        sc.write("code.cfg", base % ("1, 2", "TRUE", "TRUE", 4 if thorough else 3) + "INVARIANTS NoSendOnClosedChannel NoReloadAfterDestroy\nPROPERTY Termination\n")
        r1 = tlc(sc, "Control", "code.cfg", workers=8, timeout=1500)
        # the protocol before F21: everything but the send on the closed channel holds ...
        sc.write("before.cfg", base % ("1, 2", "FALSE", "TRUE", 4 if thorough else 3) + "INVARIANTS NoReloadAfterDestroy\nPROPERTY Termination\n")
        r2 = tlc(sc, "Control", "before.cfg", workers=8, timeout=1500)
        # ... and the model tells the two protocols apart (regression variant; not vacuous)
        sc.write("lead.cfg", base % ("1", "FALSE", "TRUE", 2) + "INVARIANTS NoSendOnClosedChannel\n")
        r3 = tlc(sc, "Control", "lead.cfg", workers=4, timeout=600, allow_violation=True)
        if r3["violated"] != "NoSendOnClosedChannel":
            raise vlib.Infra("Control.tla no longer distinguishes the plain send from the select-send (expected a NoSendOnClosedChannel counterexample)")
    log("[control] Control.tla: code (select-send) %d states: no send on a closed channel, no reload after destroy, terminates; plain-send variant %d states; "
        "regression variant violates %s" % (r1["distinct"], r2["distinct"], r3["violated"]))
    # replay of the counterexample's schedule on the real control plane: several instances at once - the load is what
    # makes the scheduler pick the tick case after done was closed (18 of 24 crashed that way before fix F21)
    trace = os.path.join(vlib.OUT, "%s-control.ndjson" % pid.lower())
    n = 24 if thorough else 8
    ones = [os.path.join(vlib.OUT, "%s-control-%d.ndjson" % (pid.lower(), i)) for i in range(n)]
    with concurrent.futures.ThreadPoolExecutor(max_workers=n) as ex:
        procs = list(ex.map(lambda i: vlib.run_vh(["control", "-out", ones[i], "-hold", str(1300 + 150 * (i % 4))], timeout=180, check=False), range(n)))
    rows, crashes = [], 0
    for one, p in zip(ones, procs):
        if p.returncode != 0:
            tail = (p.stderr or "")[-1500:]
            if "send on closed channel" in tail or "panic:" in tail or "fatal error" in tail:
                crashes += 1
                if pid == "C14":          # a crash at shutdown is C14's business; C06 only judges what happens to the backends
                    rep.violation("crash|control|" + ("send-on-closed-channel" if "send on closed channel" in tail else "panic"),
                                  "the control plane crashed at shutdown: " + tail[-700:], {"stderr": tail})
                continue
            raise vlib.Infra("control driver failed: " + tail[-800:])
        rows += [json.loads(x) for x in open(one)]
    vlib.write_ndjson(trace, rows)
    if rows:
        res = tv("ControlTrace", trace)
        for rej in res["rejects"]:
            e = rows[rej[0] - 1]
            rep.violation("%s|control|%s" % (rej[1], e.get("scenario")), "control plane scenario %s: %s" % (e.get("scenario"), json.dumps(e)), {"events": rows})
    log("[control] %d replays of close-while-sender-blocked on the real control plane, %d crashed" % (n, crashes))
    rep.cov["control_plane"] = {"states": r1["distinct"] + r2["distinct"] + r3["distinct"], "replays": len([r for r in rows if r["ev"] == "control"]), "crashed": crashes,
                                "regression_variant": "plain send + close(ReloadChan): TLC reports %s" % r3["violated"]}
    rep.cov["states"] = rep.cov.get("states", 0) + r1["distinct"] + r2["distinct"]
    rep.cov["transitions"] = rep.cov.get("transitions", 0) + r1["generated"] + r2["generated"]


def lifecycle_proof(rep):
    """Apalache: IndInv of spec/Lifecycle.tla is inductive and implies the three C06 properties - the reference-counting
    core for ANY number of readers and reloads (TLC covers 2-3 readers)."""
    obligations = [("Init => IndInv", ["--init=Init", "--inv=IndInv", "--length=0"]),
                   ("IndInv /\\ Next => IndInv'", ["--init=IndInit", "--inv=IndInv", "--length=1"]),
                   ("IndInv => CloseOnce /\\ NoUseAfterClose /\\ ClosedWhenDone", ["--init=IndInit", "--inv=Safety", "--length=0"])]
    done = 0
    with Scratch() as sc:
        for name, args in obligations:
            p = subprocess.run(["timeout", "600", "apalache-mc", "check", "--out-dir=" + sc.path("apa-out")] + args + ["Lifecycle.tla"], cwd=sc.dir,
                               stdout=subprocess.PIPE, stderr=subprocess.STDOUT, text=True)
            if "EXITCODE: OK" in p.stdout:
                done += 1
            else:
                raise vlib.Infra("Apalache did not discharge '%s':\n%s" % (name, "\n".join(p.stdout.splitlines()[-15:])))
    log("[C06] Lifecycle.tla: %d/%d proof obligations discharged by Apalache (unbounded readers / reloads)" % (done, len(obligations)))
    rep.cov["lifecycle_inductive_invariant"] = {"obligations": len(obligations), "discharged": done, "checker_cmd": "apalache-mc check --init=IndInit --inv=IndInv --length=1 Lifecycle.tla (and two more)",
                                                "what": [o[0] for o in obligations]}


def both(rep):
    control(rep)
    lifecycle_proof(rep)
    # maximum-throughput runs on the instrumented backend: acquisitions racing with reloads between the seams
    t = 10 if tier() == "thorough" else 3
    servelib.free_running(rep, "C06", [("sim-cdb", t, False), ("sim-rdb", t, False), ("sim-rdb", t, True)], hot=True)


def run():
    return servelib.run_property("C06", extra=both)


def replay(path):
    d = json.load(open(path))
    print(json.dumps(d, indent=1)[:6000])
    return 0
