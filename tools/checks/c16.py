"""C16 - a written CDB file returns every value, in order, and nothing else.

1. MC  : CdbFile.tla - for EVERY hash function Keys -> 0..HB-1 (every collision pattern: same table, same start slot,
         chains wrapping around the table end) and every sequence of <= MaxPairs pairs, the slot-table lookup with linear
         probing equals "the values of the key in insertion order".
2. GEN : the same module (with a single hash function) prints every sequence of pairs.
3. RUN : the real go-cdb-mods writer and reader on every enumerated sequence over keys {"", "a", "b"} and values {"", "x",
         "yy"}; keys searched at run time whose SpookyHash puts them in the same table and on the same start slot (last
         slot: the chain wraps); a full 32-bit hash collision between a key and an extension of it (brute force, ~2^32
         hashes) so that only the stored key length tells the records apart; 0 / 1 / 255 / 256 / 10000 / 50000 pairs; key and value lengths around the 4096-byte I/O
         buffer; Dump -> Make must reproduce the file byte for byte; ForEachKeys enumerates the pairs in order.
4. TV  : CdbTrace.tla recomputes the expected value lists from the written pairs.
"""
import json
import os
import random

import vlib
from vlib import Scratch, tlc, tv, Report, log, tier, seed

KEYS = {1: "", 2: "a", 3: "b"}
VALS = {1: "", 2: "x", 3: "yy"}


def hx(s):
    return "x" + s.encode().hex()


def run():
    rep = Report("C16", "model_checking")
    thorough = tier() == "thorough"
    rng = random.Random(seed() * 1601 + 16)
    vlib.build_harness()
    with Scratch() as sc:
        sc.write("mc.cfg", "SPECIFICATION Spec\nCONSTANTS Keys = {1, 2, 3} Vals = {1, 2} T = 2 HB = 8 MaxPairs = %d KeyCheck = TRUE EmitJson = FALSE\n"
                 "INVARIANT LookupCorrect\nCHECK_DEADLOCK FALSE\n" % (5 if thorough else 4))
        r = tlc(sc, "CdbFile", "mc.cfg", workers=16, timeout=3300)
        log("[C16] CdbFile.tla: %d (hash function, pair sequence) states: lookup = values in insertion order (%.0fs)" % (r["distinct"], r["wall"]))
        sc.write("gen.cfg", "SPECIFICATION Spec\nCONSTANTS Keys = {1, 2, 3} Vals = {1, 2, 3} T = 2 HB = 1 MaxPairs = %d KeyCheck = TRUE EmitJson = TRUE\n"
                 "INVARIANT Emit\nCHECK_DEADLOCK FALSE\n" % (4 if thorough else 3))
        g = tlc(sc, "CdbFile", "gen.cfg", workers=4, timeout=1500)
    seqs = []
    for line in g["out"].splitlines():
        if line.startswith('"['):
            seqs.append(json.loads(json.loads(line)))
    rows = []
    probe = [hx(k) for k in ("", "a", "b", "c", "ab")]
    for s in seqs:
        rows.append({"ev": "case", "pairs": [[hx(KEYS[k]), hx(VALS[v])] for k, v in s], "probe": probe, "tag": "enum"})
    for n in ([0, 1, 2, 255, 256, 257, 10000] + ([50000, 100000] if thorough else [50000])):
        rows.append({"ev": "gen", "kind": "size", "n": n, "tag": "size-%d" % n})
    for n in ([2, 3, 5, 8] if not thorough else [2, 3, 4, 5, 6, 8, 12]):
        rows.append({"ev": "gen", "kind": "collide", "n": n, "tag": "collide-%d" % n})
    for n in range(2 if thorough else 1):
        rows.append({"ev": "gen", "kind": "prefixcollide", "n": n, "tag": "prefixcollide"})
    # lengths around the 4096-byte bufio buffers of writer / Dump / Make: record headers land on every offset of a buffer boundary
    for vlen in (list(range(2000, 2060, 2)) if not thorough else list(range(1980, 2100))) + [0, 4095, 4096, 4097, 8191, 70000]:
        rows.append({"ev": "gen", "kind": "lengths", "klen": rng.choice([1, 7, 40]), "vlen": vlen, "n": 6, "tag": "lengths"})
    for klen in (4090, 4096, 4100):
        rows.append({"ev": "gen", "kind": "lengths", "klen": klen, "vlen": 10, "n": 4, "tag": "lengths-key"})
    os.makedirs(vlib.OUT, exist_ok=True)
    inp, trace = os.path.join(vlib.OUT, "c16-in.ndjson"), os.path.join(vlib.OUT, "c16-trace.ndjson")
    vlib.write_ndjson(inp, rows)
    vlib.run_vh(["cdb", "-in", inp, "-out", trace], timeout=3400)
    res = tv("CdbTrace", trace, timeout=3000)
    out = [json.loads(x) for x in open(trace)]
    log("[C16] %d cases on the real writer/reader, trace validated in %.0fs, %d rejected" % (len(out), res["wall"], len(res["rejects"])))
    for rej in res["rejects"]:
        e = out[rej[0] - 1]
        cls = e["tag"].split("-")[0]
        sig = "%s|%s" % (rej[1], cls)
        rep.violation(sig, "%s on a %s case (%d pairs): err=%r badkeys=%s dumpmake=%s absent=%s"
                      % (rej[1], e["tag"], e["n"], e["err"], e["badkeys"][:4], e["dumpmake"], {k: v for k, v in e["absent"].items() if v}),
                      {"input": rows[e["src"]], "event": {k: (v if k not in ("pairs", "lookups") or e["n"] < 12 else "...") for k, v in e.items()}})
    st = selftest(out)
    rep.cov = {"states": r["distinct"] + g["distinct"], "transitions": r["generated"] + g["generated"], "traces_validated_against_impl": len(out),
               "samples": [e for e in out if e["tag"] == "enum"][-2:], "evaluations": len(out),
               "distinct_nontrivial": len({(e["src"], e["tag"]) for e in out if e["n"] >= 2}),
               "rule": "one evaluation = one file written by the real writer and read back completely (every key, absent keys, enumeration, dump->make); "
                       "non-trivial = distinct cases with at least two pairs",
               "pairs_written": sum(e["n"] for e in out), "selftest_corruption_rejected": st, "exhaustive": True}
    rep.assumptions = ["TLC, the TLA+ Json module", "SpookyHash collisions (table + start slot; one full 32-bit collision between a key and an extension of it) are found by search at run time"]
    if st is False:
        raise vlib.Infra("binding self-test failed")
    return rep.finish()


def selftest(out):
    import copy
    for e in out:
        if e["full"] and e["n"] >= 3 and any(len(v) >= 2 for v in e["lookups"].values()):
            c = copy.deepcopy(e)
            k = next(k for k, v in c["lookups"].items() if len(v) >= 2)
            c["lookups"][k] = list(reversed(c["lookups"][k])) if c["lookups"][k][0] != c["lookups"][k][-1] else c["lookups"][k][:-1]
            path = os.path.join(vlib.OUT, "selftest-c16.ndjson")
            vlib.write_ndjson(path, [c])
            r = tv("CdbTrace", path)
            return any(x[0] == 1 for x in r["rejects"])
    return None


def replay(path):
    d = json.load(open(path))
    print(json.dumps(d, indent=1)[:6000])
    return 0
