"""C02 - storage backend and key layout never change an answer.

1. MC  : Reader.tla - the closest-key search over sorted v2 keys (with the per-request context cache) equals the
         label-by-label search for every database of <= K entries on the zone skeleton, every query name, client
         location and type (request-level equivalence incl. authority / additional lookups).
2. GEN : every database of that universe is printed by TLC (the key neighbourhoods that matter to SeekForPrev).
3. RUN : rendered and compiled with the real compilers to CDB, RocksDB v1, RocksDB v2 - for a sample also with
         other compiler options (builder / batches, workers, batch size) - and queried through the real handlers;
         seeded random worlds with resolver maps, ECS maps, wildcard maps, zone cuts, non-canonical ECS.
4. TV  : ResolveTrace.tla compares the responses pairwise (C02:backends-differ) and, for the same file compiled
         with different options, across compilations (memo); every response is also judged by Resolve.tla, so a
         disagreement is attributed to the side that is wrong.
"""
import json
import random

import vlib
import semlib
import semcheck
import semfam
from semlib import L, nm, name
from vlib import Scratch, Report, log, tier, seed

OPTS = [None, {"builder": True, "numcpu": 4}, {"builder": False, "numcpu": 4, "batch": 1, "parallel": 1}, {"builder": False, "numcpu": 2, "batch": 3, "parallel": 4},
        {"builder": True, "numcpu": 1}]


def run():
    rep = Report("C02", "model_checking")
    thorough = tier() == "thorough"
    rng = random.Random(seed() * 4409 + 2)
    vlib.build_harness()
    with Scratch() as sc:
        r, dbs = semfam.reader_dbs(sc, 3 if thorough else 2, emit=not thorough)
        states, trans = r["distinct"], r["generated"]
        if thorough:
            r2, dbs = semfam.reader_dbs(sc, 2, emit=True)
    log("[C02] Reader.tla: closest-key search = label walk on %d databases (%.0fs)" % (r["distinct"], r["wall"]))
    dbs = [d for d in dbs if d]
    rng.shuffle(dbs)
    ones = [d for d in dbs if len(d) == 1]
    more = [d for d in dbs if len(d) > 1]
    script = semlib.Script()
    for d in ones + more[:(2500 if thorough else 260)]:
        semfam.rd_script(script, d, rng)
    # compiler options: the same file compiled several ways must answer alike (and like the first compilation)
    for d in more[:(60 if thorough else 8)]:
        for o in OPTS[1:]:
            semfam.rd_script(script, d, rng, tag="opts", opts=o)
    # many values under one key, spread over the file, compiled with small racing batches: a lost value shows as a
    # difference between CDB and RocksDB for the TXT sets
    for rep_ in range(6 if thorough else 2):
        lines = [L(".", nm("hot.test"), x=name("a"), xshort=True)]
        owners = ["t%d.hot.test" % i for i in range(6)]
        for k in range(60):
            for o in owners:
                lines.append(L("'", nm(o), rd=[116, 48 + k // 10, 48 + k % 10]))
        rng.shuffle(lines)
        script.file(lines, rng, tag="opts-hot", opts={"builder": False, "numcpu": 16, "batch": rng.choice([1, 2, 3]), "parallel": 4})
        for o in owners:
            q, c = semlib.query(nm(o), 16, "10.9.9.9", exact=True, edns=True)      # 60 TXT records: needs the 4096-byte buffer
            script.q(q, c, tag="opts-hot")
    semfam.world_script(script, rng, 200 if thorough else 16, default_routes=True,
                        opts_fn=lambda g: g.choice(OPTS) if g.random() < 0.3 else None)
    trace, rows, res, info = semcheck.validate(script, "c02")
    stats = {}
    semcheck.collect(rep, script, rows, res, ["C02:"], stats)
    # a judgement that rejects some backends of a line but not all of them is a backend difference as well
    per_line = {}
    for rej in res["rejects"]:
        if not rej[2].startswith("C02:"):
            per_line.setdefault(rej[0], set()).add(rej[1])
    for line, bs in sorted(per_line.items()):
        e = rows[line - 1]
        if e["ev"] in ("q", "loc") and len(bs) < len(e["r"]):
            cls = "C02:judged-differently"
            sig = "%s|%s|%s" % (cls, "+".join(sorted(bs)), semcheck.input_class(e))
            if any(v[0] == sig for v in rep.viol):
                continue
            rep.violation(sig, "%s: only %s break the specification for %s" % (cls, sorted(bs), semlib.show_q(e["q"]) if e["ev"] == "q" else json.dumps(e["q"])),
                          semlib.context_of(rows, line, script))
    st = selftest(rows)
    rep.cov = {"states": states, "transitions": trans, "traces_validated_against_impl": info["files"],
               "samples": semfam.sample_rows(rows), "evaluations": info["queries"] * 4,
               "distinct_nontrivial": semfam.nontrivial_queries(rows, lambda e: any(x.get("written") and x["rcode"] != 5 for x in e["r"].values())),
               "rule": "databases = TLC-enumerated Reader.tla universe + the same under 4 other compiler option tuples + seeded random worlds; every query on "
                       "cdb, cdb(per-family), rocksdb-v1, rocksdb-v2, responses compared pairwise; non-trivial = distinct (file, query) not answered REFUSED",
               "files": info["files"], "rejected_judgements": len(res["rejects"]), "foreign_clauses": stats.get("foreign", {}),
               "selftest_corruption_rejected": st}
    rep.assumptions = ["TLC, the TLA+ Json module, miekg/dns as message codec",
                       "weighted A/AAAA answers are compared by count (the draw differs per backend), everything else as sets"]
    if st is False:
        raise vlib.Infra("binding self-test failed: a response altered on one backend was accepted")
    return rep.finish()


def selftest(rows):
    import copy
    import os
    for i, e in enumerate(rows):
        if e["ev"] == "q" and len(e["r"]) > 1 and all(r.get("written") and r["ns"] for r in e["r"].values()):
            j = i
            while rows[j]["ev"] != "file":
                j -= 1
            sub = [rows[j], copy.deepcopy(e)]
            b = sorted(sub[1]["r"])[-1]
            sub[1]["r"][b]["ns"] = []
            path = os.path.join(vlib.OUT, "selftest-c02.ndjson")
            vlib.write_ndjson(path, sub)
            r = vlib.tv("ResolveTrace", path)
            return any(x[2] == "C02:backends-differ" for x in r["rejects"])
    return None


def replay(path):
    """re-executes the recorded case on the current tree and lets TLC judge it again: exit 1 if it is still rejected"""
    d = json.load(open(path))
    print(json.dumps({k: v for k, v in d.items() if k != "replay"}, indent=1)[:3000])
    print("data file:\n" + d["replay"].get("data_file", "")[:4000])
    rej = semlib.replay_rows(path)
    if rej is None:
        return 0
    mine = [r for r in rej if str(r[2]).startswith(d["property"] + ":") or d["property"] == "C02"]
    if mine:
        print("VIOLATION property=%s replay=%s" % (d["property"], path))
        return 1
    print("not reproduced on the current tree")
    return 0
