"""C03 - client-to-location mapping is longest-prefix match over the declared subnets.

1. MC  : LpmImpl.tla - the range-point table (Rearranger + predecessor search) and the prefix-length set with masked
         gets (CDB, combined and per family) equal longest-prefix match for EVERY set of <= K subnets on the toy
         address spaces ("01" / "001" / "011" as the IPv4 block), with the switches set as the code is.
2. GEN : the same module prints every subnet set; each is embedded in the real address space (4 variants).
3. RUN : (a) the real dnsdata.Rearranger alone: its range-point table for every set, read with the predecessor rule of
         the RocksDB driver (JudgeTable) - the property's first observation point; (b) real compilers (CDB, RocksDB v1/v2)
         and the real readers (Reader.ResolverLocation / Reader.EcsLocation) for every toy client, canonical and with
         host bits set - the second.
4. TV  : ResolveTrace.tla / Lpm.tla judge every recorded lookup on the REAL addresses (JudgeLoc).
Also: name-to-map step (exact before nearest enclosing wildcard), realistic random subnet sets.
"""
import json
import os
import random

import vlib
import semlib
import semcheck
import lpmgen
from semlib import L, nm
from vlib import Scratch, tlc, Report, log, tier, seed

# the switches as the code in /repo is (KNOWN_FINDINGS.json: F3 F4 F5 fixed; F3b known)
CODE = dict(FixDefault="TRUE", FixSpan="FALSE", FixFamily="TRUE")
SPACES = {"b4": (4, 2, 4), "b5lo": (5, 3, 4), "b5hi": (5, 3, 12)}
LOCS = {1: 0x4C31, 2: 0x4C32}
SPAN_TAG = "v6-contains-v4block"


def cfg(space, k, nospan, emit, fix=CODE):
    B, OFF, V4 = SPACES[space]
    c = "SPECIFICATION Spec\nCONSTANTS B = %d OFF = %d V4First = %d K = %d NoSpan = %s EmitJson = %s\n" % (B, OFF, V4, k, "TRUE" if nospan else "FALSE", "TRUE" if emit else "FALSE")
    c += "".join("  %s = %s\n" % kv for kv in fix.items())
    c += "INVARIANT Emit\n" if emit else "INVARIANTS RdbOk CdbOk CdbSepOk\n"
    return c + "CHECK_DEADLOCK FALSE\n"


def gen_sets(sc, space, k, nospan):
    name = "gen-%s-%d-%d.cfg" % (space, k, nospan)
    sc.write(name, cfg(space, k, nospan, True))
    r = tlc(sc, "LpmImpl", name, workers=8, timeout=1500)
    out = []
    for line in r["out"].splitlines():
        if line.startswith('"['):
            nets = json.loads(json.loads(line))
            if nets:
                out.append(nets)
    return r, out


def contains_v4(sp, n):
    return n["fam"] == 6 and n["len"] > 0 and n["start"] <= sp.V4First and n["start"] + (1 << (sp.B - n["len"])) >= sp.V4First + (1 << (sp.B - sp.OFF))


def add_set(script_lines, events, idx, sp, nets, variant, rng, tag):
    """one subnet set -> map lines, subnet lines and its lookup events"""
    name = nm("s%d.m" % idx)
    mid_r, mid_e = 0x5000 + 2 * idx, 0x5001 + 2 * idx
    script_lines.append(L("M", name, mapid=mid_r))
    script_lines.append(L("8", name, mapid=mid_e))
    rp_nets, rp_clients = [], []
    for n in nets:
        val, rl = sp.real(n["start"], n["len"], variant)
        c = lpmgen.cidr(val, rl, n["fam"])
        rp_nets.append((LOCS[n["loc"]], c))
        for mid in (mid_r, mid_e):
            script_lines.append(semlib.net(LOCS[n["loc"]], c, mid))
    for (fam, addr, plen) in lpmgen.toy_clients(sp):
        val, rl = sp.real(addr, plen, variant)
        if fam == 4 and rl < 96:
            continue
        rp_clients.append((lpmgen.addr_text(val, fam), rl - (96 if fam == 4 else 0)))
        events.append(("8", name, (lpmgen.addr_text(val, fam), rl - (96 if fam == 4 else 0)), tag))
        if rl < 128 and rng.random() < 0.5:
            v1, _ = sp.real(addr, plen, variant, fill=1)              # host bits set: same subnet, same answer
            if fam == 6 and (v1 >> 32) == 0xFFFF:
                continue                      # would read as an IPv4-mapped address: family is then ambiguous (C13 only)
            events.append(("8", name, (lpmgen.addr_text(v1, fam), rl - (96 if fam == 4 else 0)), (tag + "+hostbits").lstrip("+")))
        if plen == sp.B:
            for fill in (0, 1):
                v2, _ = sp.real(addr, plen, variant, fill=fill)
                events.append(("M", name, lpmgen.addr_text(v2, fam), tag))
                rp_clients.append((lpmgen.addr_text(v2, fam), 32 if fam == 4 else 128))
    # first observation point: the table of the real Rearranger for this set, before any database is involved
    events.append(("rp", rp_nets, rp_clients, tag))


def build_script(rng, sets, per_file=60):
    s = semlib.Script()
    nsets = 0
    for i in range(0, len(sets), per_file):
        lines, events = [], []
        for j, (space, nets, tag) in enumerate(sets[i:i + per_file]):
            sp = lpmgen.Space(*SPACES[space])
            add_set(lines, events, j, sp, nets, rng.choice(lpmgen.VARIANTS), rng, tag)
            nsets += 1
        s.file(lines, None, tag="toy")
        for kind, name, c, tag in events:
            if kind == "8":
                s.loc("8", name, ecs=c, tag=tag)
            elif kind == "rp":
                s.rp(name, c, tag=tag)
            else:
                s.loc("M", name, rip=c, tag=tag)
    return s, nsets


def map_step_files(rng, s):
    """name-to-map step: exact-name map before the nearest enclosing wildcard map (different map ids and subnets
    per map, so the chosen map is visible in the location returned)"""
    for rep in range(6 if tier() == "quick" else 40):
        zone = rng.choice(["z", "ex.com"])
        decls = []
        cands = [zone, "a." + zone, "bb.a." + zone, "c.bb.a." + zone, "x." + zone]
        mid = 0x6100
        lines = []
        for kind in "M8":
            for c in cands:
                for wild in (False, True):
                    if rng.random() < 0.45:
                        mid += 1
                        lines.append(L(kind, nm(c), wild=wild, mapid=mid))
                        loc = 0x4100 + (mid & 0xFF)
                        if rng.random() < 0.25:
                            continue                      # a map that is declared for a name but has no subnets at all
                        lines.append(semlib.net(loc, "10.0.0.0/8", mid))
                        if rng.random() < 0.5:
                            lines.append(semlib.net(loc + 0x100, "10.1.0.0/16", mid))
                        lines.append(semlib.net(loc, "2001:db8::/32", mid))
                        if rng.random() < 0.6:
                            lines.append(semlib.net(loc, rng.choice(["8000::/1", "ff00::/8", "::/0"]), mid))   # last range point carries a location
        if not lines:
            continue
        if rng.random() < 0.7:          # the default map: subnets without a map id serve the names that have no resolver map
            lines.append(semlib.net(0x4177, "10.0.0.0/8", 0))
            lines.append(semlib.net(0x4178, rng.choice(["10.1.2.0/24", "2001:db8::/32", "192.0.2.0/24"]), 0))
        s.file(lines, rng, tag="mapstep")
        qn = cands + ["q." + c for c in cands] + ["q.q." + c for c in cands] + ["other.net", "", "a!." + zone]
        for n in qn:
            s.loc("M", nm(n), rip=rng.choice(["10.1.2.3", "10.2.2.2", "2001:db8::1", "192.0.2.1"]), tag="mapstep")
            s.loc("8", nm(n), ecs=rng.choice([("10.1.2.0", 24), ("10.0.0.0", 8), ("10.1.0.0", 12), ("2001:db8::", 48), ("192.0.2.0", 24)]), tag="mapstep")


def random_files(rng, s, n):
    """realistic subnet sets: 20..150 subnets per map, nested and adjacent, both families, optional default routes"""
    import ipaddress
    for _ in range(n):
        lines = [L("M", nm("r.m"), mapid=0x7001), L("8", nm("r.m"), mapid=0x7002), L("M", nm("m"), wild=True, mapid=0x7003)]
        seen = set()
        nets = []
        base4 = [ipaddress.ip_network(x) for x in ("10.0.0.0/8", "192.168.0.0/16", "0.0.0.0/1", "255.0.0.0/8", "100.64.0.0/10")]
        base6 = [ipaddress.ip_network(x) for x in ("2001:db8::/32", "fc00::/7", "ff00::/8", "2000::/3", "8000::/1")]
        for _k in range(rng.randrange(20, 150)):
            b = rng.choice(base4 if rng.random() < 0.6 else base6)
            maxp = b.max_prefixlen
            p = min(maxp, b.prefixlen + rng.choice([0, 1, 2, 4, 7, 8, 9, 12, 16, 24]))
            sub = ipaddress.ip_network((int(b.network_address) + rng.randrange(b.num_addresses), p), strict=False)
            if rng.random() < 0.3 and nets:                       # nest inside / sit next to an earlier one
                o = rng.choice(nets)
                if o.prefixlen < o.max_prefixlen:
                    kids = list(o.subnets(prefixlen_diff=1))
                    sub = rng.choice(kids)
                    if rng.random() < 0.3:
                        sub = ipaddress.ip_network((int(o.broadcast_address) + 1) % (1 << o.max_prefixlen), strict=False) if False else sub
            if str(sub) in seen:
                continue
            seen.add(str(sub))
            nets.append(sub)
        if rng.random() < 0.4:
            nets.append(ipaddress.ip_network("0.0.0.0/0"))
        if rng.random() < 0.4:
            nets.append(ipaddress.ip_network("::/0"))
        for mid in (0x7001, 0x7002, 0x7003):
            for x in nets:
                if mid == 0x7003 and rng.random() < 0.5:
                    continue
                lines.append(semlib.net(rng.choice([0x4101, 0x4102, 0x4103]), str(x), mid))
        s.file(lines, rng, tag="random")
        for x in rng.sample(nets, min(len(nets), 40)):
            maxp = x.max_prefixlen
            a = ipaddress.ip_address(int(x.network_address) + rng.randrange(x.num_addresses))
            for name in ("r.m", "q.m"):
                s.loc("M", nm(name), rip=str(a), tag="random")
                s.loc("M", nm(name), rip=str(x.network_address), tag="random")
                s.loc("M", nm(name), rip=str(x.broadcast_address), tag="random")
                if int(x.broadcast_address) + 1 < (1 << maxp):
                    s.loc("M", nm(name), rip=str(x.broadcast_address + 1), tag="random")
            pl = rng.choice([x.prefixlen, max(0, x.prefixlen - 1), min(maxp, x.prefixlen + 3), maxp, 0])
            s.loc("8", nm("r.m"), ecs=(str(a), pl), tag="random")
            s.loc("8", nm("r.m"), ecs=(str(x.network_address), x.prefixlen), tag="random")


def run():
    rep = Report("C03", "model_checking")
    thorough = tier() == "thorough"
    rng = random.Random(seed() * 1009 + 3)
    vlib.build_harness()
    states = trans = 0
    mc_plan = [("b4", 3), ("b5lo", 2), ("b5hi", 2)] if not thorough else [("b4", 3), ("b5lo", 3), ("b5hi", 3)]      # b5 K=3: about 600 000 sets each (~15 min)
    gen_plan = [("b4", 2), ("b5lo", 2), ("b5hi", 2)] if not thorough else [("b4", 3), ("b5lo", 2), ("b5hi", 2)]
    sets, spans = [], []
    with Scratch() as sc:
        for space, k in mc_plan:
            name = "mc-%s-%d.cfg" % (space, k)
            sc.write(name, cfg(space, k, True, False))
            r = tlc(sc, "LpmImpl", name, workers=16, timeout=3300)
            log("[C03] LpmImpl %s K=%d: %d subnet sets, all clients: rearranger and prefix-length set = LPM (%.0fs)" % (space, k, r["distinct"], r["wall"]))
            states += r["distinct"]
            trans += r["generated"]
        for space, k in gen_plan:
            r, out = gen_sets(sc, space, k, True)
            sets += [(space, n, "") for n in out]
            states += r["distinct"]
            trans += r["generated"]
            # the labelled class of the recorded finding F3b: IPv6 subnets that contain the IPv4-mapped block
            r2, out2 = gen_sets(sc, space, min(k, 2), False)
            sp = lpmgen.Space(*SPACES[space])
            spans += [(space, n, SPAN_TAG) for n in out2 if any(contains_v4(sp, x) for x in n)]
    log("[C03] GEN: %d subnet sets (+%d of the class %s)" % (len(sets), len(spans), SPAN_TAG))
    nq, ns = (260, 50) if not thorough else (2500, 400)        # about 300 000 lookups; every 1-subnet set is always in
    rng.shuffle(sets)
    rng.shuffle(spans)
    # small sets first: every 1-subnet set is always included
    ones = [x for x in sets if len(x[1]) == 1]
    chosen = ones + [x for x in sets if len(x[1]) > 1][:max(0, nq - len(ones))] + spans[:ns]
    script, nsets = build_script(rng, chosen)
    map_step_files(rng, script)
    random_files(rng, script, 3 if not thorough else 40)
    trace, rows, res, info = semcheck.validate(script, "c03")
    stats = {}
    nv = semcheck.collect(rep, script, rows, res, ["C03:"], stats)
    st = selftest(rows)
    nontrivial = set()
    cur = None
    for e in rows:
        if e["ev"] == "file":
            cur = e["id"]
        elif e["ev"] == "loc" and any(o.get("found") for o in e["r"].values()):
            nontrivial.add((cur, json.dumps(e["q"], sort_keys=True)))
    samples = [r for r in rows if r["ev"] == "loc"][:3]
    rep.cov = {"states": states, "transitions": trans, "traces_validated_against_impl": info["files"],
               "samples": samples, "evaluations": sum(1 for r in rows if r["ev"] == "loc") * 4,
               "distinct_nontrivial": len(nontrivial),
               "rule": "subnet sets = TLC-enumerated sets on the toy spaces embedded in the real space (top/ones/zero/mid) + name-to-map "
                       "layouts + random realistic sets; one evaluation = one lookup on one backend (cdb, cdb per-family, rocksdb v1, v2); "
                       "non-trivial = distinct (file, map name, client) whose lookup found a location on some backend",
               "subnet_sets": nsets, "rejected_judgements": len(res["rejects"]), "foreign_clauses": stats.get("foreign", {}),
               "selftest_corruption_rejected": st, "model_switches": CODE}
    rep.assumptions = ["TLC, the TLA+ Json module", "the bit-group embedding of the toy space is only a generator: the verdict is Lpm.tla on the real addresses",
                       "harness rendering of % / M / 8 lines (cross-checked: unchanged tree is clean)"]
    if st is False:
        raise vlib.Infra("binding self-test failed: a corrupted lookup result was accepted")
    return rep.finish()


def selftest(rows):
    """corrupt one recorded location id: TLC must reject the line"""
    import copy
    for i, e in enumerate(rows):
        if e["ev"] == "loc" and all(o.get("found") for o in e["r"].values()):
            j = i
            while rows[j]["ev"] != "file":
                j -= 1
            sub = [rows[j], copy.deepcopy(e)]
            b = sorted(sub[1]["r"])[0]
            sub[1]["r"][b]["loc"] ^= 1
            path = os.path.join(vlib.OUT, "selftest-c03.ndjson")
            vlib.write_ndjson(path, sub)
            r = vlib.tv("ResolveTrace", path)
            return any(x[0] == 2 and x[1] == b for x in r["rejects"])
    return None


def replay(path):
    """re-executes the recorded case on the current tree and lets TLC judge it again: exit 1 if it is still rejected"""
    d = json.load(open(path))
    print(json.dumps({k: v for k, v in d.items() if k != "replay"}, indent=1)[:3000])
    print("data file:\n" + d["replay"].get("data_file", "")[:4000])
    rej = semlib.replay_rows(path)
    if rej is None:
        return 0
    mine = [r for r in rej if str(r[2]).startswith(d["property"] + ":") or d["property"] == "C02"]
    if mine:
        print("VIOLATION property=%s replay=%s" % (d["property"], path))
        return 1
    print("not reproduced on the current tree")
    return 0
