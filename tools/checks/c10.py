"""C10 - EDNS Client Subnet is echoed faithfully with a truthful scope.

1. MC  : LpmImpl.tla ScopeOk - for every subnet set and client of the toy spaces the scope both lookup algorithms
         report is the matched length in the client's family, within [0, family width].
2. GEN : TLC-enumerated subnet sets embedded in the real space, as ECS maps of served names.
3. RUN : full queries through the real handler (CDB combined / per-family, RocksDB v1 / v2): every toy client as an
         ECS option (canonical and with host bits on the wire), all source lengths 0..32 and the interesting IPv6
         ones, names with / without a client-subnet map, REFUSED / referral / NXDOMAIN / answer paths, EDNS without
         ECS, no EDNS, response cache on (the OPT of a cache hit must be the query's own).
4. TV  : ResolveTrace.tla / Resolve.tla JudgeOpt: OPT iff asked, ECS iff asked, family / source length / address
         unchanged, scope = matched subnet length in the client's family (<= 32 / 128), 24 / 48 when the map has no
         match, 0 without a map; resolver decides when the subnet yields no location (answer judged by JudgeAt).
"""
import json
import random

import vlib
import semlib
import semcheck
import semfam
import semgen
import lpmgen
import c03
from semlib import L, nm, name
from vlib import Scratch, tlc, Report, log, tier, seed

V6LENS = [0, 1, 7, 8, 9, 31, 32, 33, 47, 48, 49, 56, 63, 64, 65, 95, 96, 97, 127, 128]


def toy_file(script, rng, sets, cache):
    lines = [L(".", nm("m"), x=name("a"), xshort=True)]
    qs = []
    for j, (space, nets, tag) in enumerate(sets):
        sp = lpmgen.Space(*c03.SPACES[space])
        variant = rng.choice(lpmgen.VARIANTS)
        nme = nm("s%d.m" % j)
        mid_r, mid_e = 0x5000 + 2 * j, 0x5001 + 2 * j
        lines += [L("M", nme, mapid=mid_r), L("8", nme, mapid=mid_e), L("+", nme, ip="10.0.0.1"),
                  L("+", nme, ip="10.0.1.1", loc=c03.LOCS[1]), L("+", nme, ip="10.0.2.1", loc=c03.LOCS[2])]
        for n in nets:
            val, rl = sp.real(n["start"], n["len"], variant)
            cidr = lpmgen.cidr(val, rl, n["fam"])
            lines.append(semlib.net(c03.LOCS[n["loc"]], cidr, mid_e))
            if rng.random() < 0.5:
                lines.append(semlib.net(c03.LOCS[3 - n["loc"]], cidr, mid_r))       # the resolver map says otherwise
        clients = lpmgen.toy_clients(sp)
        full = [c for c in clients if c[2] == sp.B]
        for (fam, addr, plen) in clients:
            val, rl = sp.real(addr, plen, variant)
            if fam == 4 and rl < 96:
                continue
            ra = rng.choice(full)
            rv, _ = sp.real(ra[1], ra[2], variant, fill=rng.choice([0, 1]))
            rip = lpmgen.addr_text(rv, ra[0])
            raw = rng.random() < 0.4
            v1 = val
            if raw:
                v1, _ = sp.real(addr, plen, variant, fill=1)
                if fam == 6 and (v1 >> 32) == 0xFFFF:
                    v1, raw = val, False
            qs.append(semlib.query(nme, rng.choice([1, 1, 16]), rip, ecs=(lpmgen.addr_text(v1, fam), rl - (96 if fam == 4 else 0)), rawecs=raw))
    script.file(lines, None, tag="toy", opts={"cache": cache} if cache else None)
    for q, c in qs:
        script.q(q, c, tag="toy" + ("+cache" if cache else ""))


def shapes_file(script, rng, cache):
    z = "ex.org"
    lines = [L(".", nm(z), x=name("a"), xshort=True, ip="192.0.2.53"),
             L("8", nm("geo." + z), mapid=0x6501), L("8", nm("w." + z), wild=True, mapid=0x6502), L("M", nm(z), wild=True, mapid=0x6503),
             L("M", nm(z), mapid=0x6503),
             L("+", nm("geo." + z), ip="192.0.2.1"), L("+", nm("geo." + z), ip="192.0.2.2", loc=0x4101), L("+", nm("geo." + z), ip="192.0.2.3", loc=0x4102),
             L("+", nm("x.w." + z), ip="192.0.2.4"), L("+", nm("x.w." + z), ip="192.0.2.5", loc=0x4101),
             L("+", nm("plain." + z), ip="192.0.2.6"), L("+", nm("plain." + z), ip="192.0.2.7", loc=0x4102),
             L("&", nm("d.w." + z), x=nm("ns.elsewhere.net")),
             L("'", nm("geo." + z), rd=[116, 120, 116])]
    for c, lo in (("10.0.0.0/8", 0x4101), ("10.128.0.0/9", 0x4102), ("10.128.0.0/16", 0x4101), ("10.128.0.0/17", 0x4102), ("203.0.113.77/32", 0x4102),
                  ("2001:db8::/32", 0x4101), ("2001:db8:ffff::/48", 0x4102), ("2001:db8:ffff:ff00::/56", 0x4101), ("2001:db8::1/128", 0x4102)):
        lines.append(semlib.net(lo, c, 0x6501))
    dflt = rng.choice([[], ["0.0.0.0/0"], ["::/0"], ["0.0.0.0/0", "::/0"]])
    for c in dflt:
        lines.append(semlib.net(0x4102, c, 0x6502))
    lines.append(semlib.net(0x4101, "172.16.0.0/12", 0x6502))
    lines.append(semlib.net(0x4102, "10.0.0.0/8", 0x6503))                      # resolver map
    script.file(lines, rng, tag="shapes", opts={"cache": cache} if cache else None)
    names = ["geo." + z, "x.w." + z, "plain." + z, "nx." + z, "below.d.w." + z, "d.w." + z, z, "out.example", "deep.x.w." + z]
    v4addrs = ["10.128.0.1", "10.128.255.255", "10.0.0.0", "10.255.255.255", "203.0.113.77", "198.51.100.9", "172.31.255.255", "0.0.0.0", "255.255.255.255"]
    v6addrs = ["2001:db8::1", "2001:db8:ffff:ff00::1", "2001:db8:ffff:ffff:ffff:ffff:ffff:ffff", "2001:db9::", "::", "ffff:ffff:ffff:ffff:ffff:ffff:ffff:ffff", "::1"]
    for nme in names:
        for t in (1, 16):
            for rip in ("10.1.1.1", "192.0.2.200"):
                # without EDNS, with EDNS only
                script.q(*semlib.query(nm(nme), t, rip), tag="shapes")
                script.q(*semlib.query(nm(nme), t, rip, edns=True), tag="shapes")
        lens4 = list(range(0, 33)) if nme == names[0] else rng.sample(range(0, 33), 6)
        for a in v4addrs:
            for pl in (lens4 if a == v4addrs[0] else rng.sample(lens4, min(4, len(lens4)))):
                raw = rng.random() < 0.3
                script.q(*semlib.query(nm(nme), rng.choice([1, 16]), rng.choice(["10.1.1.1", "192.0.2.200"]), ecs=(a, pl), rawecs=raw, upper=rng.random() < 0.1),
                         tag="shapes" + ("+cache" if cache else ""))
        for a in v6addrs:
            for pl in rng.sample(V6LENS, 5 if nme != names[0] else len(V6LENS)):
                script.q(*semlib.query(nm(nme), 1, "192.0.2.200", ecs=(a, pl), rawecs=rng.random() < 0.3), tag="shapes" + ("+cache" if cache else ""))


def run():
    rep = Report("C10", "model_checking")
    thorough = tier() == "thorough"
    rng = random.Random(seed() * 2203 + 10)
    vlib.build_harness()
    states = trans = 0
    sets = []
    with Scratch() as sc:
        for space, k in ([("b4", 2), ("b5lo", 2)] if not thorough else [("b4", 3), ("b5lo", 2), ("b5hi", 2)]):
            nme = "c10-%s.cfg" % space
            B, OFF, V4 = c03.SPACES[space]
            sc.write(nme, "SPECIFICATION Spec\nCONSTANTS B = %d OFF = %d V4First = %d K = %d NoSpan = TRUE EmitJson = TRUE\n" % (B, OFF, V4, k)
                     + "".join("  %s = %s\n" % kv for kv in c03.CODE.items()) + "INVARIANTS ScopeOk Emit\nCHECK_DEADLOCK FALSE\n")
            r = tlc(sc, "LpmImpl", nme, workers=16, timeout=3300)
            states += r["distinct"]
            trans += r["generated"]
            for line in r["out"].splitlines():
                if line.startswith('"['):
                    n = json.loads(json.loads(line))
                    if n:
                        sets.append((space, n, ""))
            log("[C10] LpmImpl %s K=%d: scope truthful and bounded on %d subnet sets (%.0fs)" % (space, k, r["distinct"], r["wall"]))
    rng.shuffle(sets)
    script = semlib.Script()
    per, nfiles = 40, (12 if thorough else 3)
    for i in range(nfiles):
        toy_file(script, rng, sets[i * per:(i + 1) * per], cache=(i % 3 == 2))
    for i in range(8 if thorough else 2):
        shapes_file(script, rng, cache=bool(i % 2))
    semfam.world_script(script, rng, 60 if thorough else 6, default_routes=True, per_name=3)
    trace, rows, res, info = semcheck.validate(script, "c10")
    stats = {}
    semcheck.collect(rep, script, rows, res, ["C10:"], stats)
    st = selftest(rows)
    rep.cov = {"states": states, "transitions": trans, "traces_validated_against_impl": info["files"],
               "samples": semfam.sample_rows([e for e in rows if e["ev"] == "q" and e["q"]["ecs"]["present"]]),
               "evaluations": info["queries"] * 4,
               "distinct_nontrivial": semfam.nontrivial_queries(rows, lambda e: e["q"]["ecs"]["present"] and any(x.get("hasecs") and x["ecs"]["scope"] > 0 for x in e["r"].values())),
               "rule": "queries with ECS built from every toy client of TLC-enumerated subnet sets (embedded), all IPv4 source lengths and the interesting IPv6 ones "
                       "over a shapes file (map / no map / no match / REFUSED / referral / NXDOMAIN, cache on and off), random worlds; non-trivial = distinct "
                       "(file, query) with ECS answered with a non-zero scope",
               "files": info["files"], "rejected_judgements": len(res["rejects"]), "foreign_clauses": stats.get("foreign", {}),
               "selftest_corruption_rejected": st}
    rep.assumptions = ["TLC, the TLA+ Json module, miekg/dns as message codec (responses are packed and unpacked before they are judged)",
                       "queries whose ECS option already carries a non-zero scope or a family other than 1/2 are outside C10 (C13 only)"]
    if st is False:
        raise vlib.Infra("binding self-test failed: a corrupted scope was accepted")
    return rep.finish()


def selftest(rows):
    import copy
    import os
    for i, e in enumerate(rows):
        if e["ev"] == "q" and e["q"]["ecs"]["present"] and all(r.get("hasecs") for r in e["r"].values()):
            j = i
            while rows[j]["ev"] != "file":
                j -= 1
            sub = [rows[j], copy.deepcopy(e)]
            b = sorted(sub[1]["r"])[0]
            sub[1]["r"][b]["ecs"]["scope"] += 1
            path = os.path.join(vlib.OUT, "selftest-c10.ndjson")
            vlib.write_ndjson(path, sub)
            r = vlib.tv("ResolveTrace", path)
            return any(x[0] == 2 and x[1] == b and x[2] == "C10:scope" for x in r["rejects"])
    return None


def replay(path):
    """re-executes the recorded case on the current tree and lets TLC judge it again: exit 1 if it is still rejected"""
    d = json.load(open(path))
    print(json.dumps({k: v for k, v in d.items() if k != "replay"}, indent=1)[:3000])
    print("data file:\n" + d["replay"].get("data_file", "")[:4000])
    rej = semlib.replay_rows(path)
    if rej is None:
        return 0
    mine = [r for r in rej if str(r[2]).startswith(d["property"] + ":") or d["property"] == "C02"]
    if mine:
        print("VIOLATION property=%s replay=%s" % (d["property"], path))
        return 1
    print("not reproduced on the current tree")
    return 0
