"""C14 - serving and reloading concurrently is free of data races, deadlocks and crashes.

Model side : IterPool.tla (lock / channel discipline of the iterator pool: deadlock freedom, conservation, flag access
             discipline) and the deadlock-free Serve.tla design, both checked exhaustively.
Code side  : randomised stress (N query workers x reloader doing partial and full reloads x statistics reporter x final
             shutdown) on the instrumented backend and on real CDB / RocksDB v1 / v2, built with the Go race detector;
             verdict = race reports, watchdog (hang), crash, plus ServeObs on the recorded events."""
import glob
import json
import os
import re
import subprocess
import tempfile

import servelib
import vlib
from vlib import Scratch, tlc, tv, log, tier, seed

ITERPOOL_CFG = """SPECIFICATION Spec
CONSTANTS Getters = {%s}  N = %d  MaxGets = %d  CatchUpMayFail = FALSE  AtomicFlag = TRUE  PutChecksFlag = FALSE
INVARIANTS Conservation NoRace NoDeadlock
CHECK_DEADLOCK FALSE
"""


def race_blocks(text):
    return re.findall(r"WARNING: DATA RACE\n(.*?)\n==================", text, re.S)


def frames(block):
    """function names of the two conflicting accesses (first frames outside the runtime)"""
    acc = re.split(r"\n\n", block)
    out = []
    for part in acc[:2]:
        fr = [l.strip() for l in part.splitlines()[1:] if l.startswith("  ") and not l.startswith("      ")]
        fr = [f for f in fr if not f.startswith(("runtime.", "sync.", "sync/atomic."))]
        out.append(fr[0] if fr else "?")
    return out


def run():
    rep = vlib.Report("C14", "model_checking")
    thorough = tier() == "thorough"
    vlib.build_harness()
    vlib.build_harness(race=True)
    states = trans = 0
    with Scratch() as sc:
        sc.write("ip.cfg", ITERPOOL_CFG % (("1, 2, 3", 3, 2) if thorough else ("1, 2", 2, 2)))
        r = tlc(sc, "IterPool", "ip.cfg", workers=16, timeout=1500)
        log("[C14] IterPool: %d distinct states, %.0fs" % (r["distinct"], r["wall"]))
        states += r["distinct"]
        trans += r["generated"]
        # the Serve design neither deadlocks nor violates its safety properties (lock discipline of reloadMu / DB lock)
        for kind in ("cdb", "rdb"):
            r = servelib.model_check(sc, "ideal_" + kind, procs=2, runs=2 if not thorough else 1, reloads=1 if not thorough else 2,
                                     maxgen=2 if not thorough else 3, kind=kind, cache=True, bad="{2}" if not thorough else "{3}")
            states += r["distinct"]
            trans += r["generated"]
    plans = [("sim-cdb", 2, False), ("sim-rdb", 2, False), ("cdb", 2, False), ("rdb-v1", 3, False), ("rdb-v2", 3, False), ("rdb-v2", 2, True)]
    if thorough:
        plans = [(b, d * 8, p) for b, d, p in plans] + [("rdb-v1", 15, True)]
    os.makedirs(vlib.OUT, exist_ok=True)
    traces, queries, reloads, races = [], 0, 0, 0
    tmp = tempfile.mkdtemp(prefix="verif-race-")
    for i, (backend, dur, ponly) in enumerate(plans):
        tr = os.path.join(vlib.OUT, "c14-stress-%d.ndjson" % i)
        logp = os.path.join(tmp, "race-%d" % i)
        args = ["serve-stress", "-backend", backend, "-dur", "%ds" % dur, "-out", tr, "-id", str(i + 1), "-workers", "12" if thorough else "8"]
        if ponly:
            args.append("-partial-only")
        p = vlib.run_vh(args, race=True, timeout=dur + 120, env={"GORACE": "halt_on_error=0 log_path=" + logp}, check=False)
        racetext = "".join(open(f).read() for f in glob.glob(logp + "*"))
        if p.returncode not in (0, 66):
            # the process died: a crash of the code under test (SIGSEGV in cgo, fatal error, unrecovered panic)
            tail = (p.stderr or "")[-1500:]
            sig = "crash|%s|%s" % (backend, re.sub(r"0x[0-9a-f]+|\d+", "N", (re.search(r"(fatal error: .*|panic: .*|SIG[A-Z]+.*)", tail) or [None, "exit %d" % p.returncode])[1] if re.search(r"(fatal error: .*|panic: .*|SIG[A-Z]+.*)", tail) else "exit %d" % p.returncode)[:80])
            rep.violation(sig, "stress on %s died (rc=%d): %s" % (backend, p.returncode, tail[-600:]), {"backend": backend, "args": args, "stderr": tail})
            continue
        info = json.loads(p.stdout.strip().splitlines()[-1])
        queries += info["queries"]
        reloads += info["reloads"]
        for blk in race_blocks(racetext):
            fr = frames(blk)
            if all("verifharness" in f or "main." in f for f in fr):
                raise vlib.Infra("data race inside the harness itself:\n" + blk[:1500])
            races += 1
            sig = "race|" + "|".join(sorted(re.sub(r"\(\)$", "", f) for f in fr))
            rep.violation(sig, "data race on %s between %s and %s" % (backend, fr[0], fr[1]), {"backend": backend, "report": blk[:4000]})
        traces.append((backend, tr))
        log("[C14] stress %s %ds: %d queries, %d reloads, %d race report(s)" % (backend, dur, info["queries"], info["reloads"], len(race_blocks(racetext))))
    # hot stress (no race detector, no per-query bookkeeping, reloads back to back): maximum pressure on the windows
    # between pointer reads and reference counting; a touch of a closed backend is what crashes a real one
    hot = [("sim-cdb", 3, False), ("cdb", 3, False), ("sim-rdb", 3, False), ("rdb-v2", 3, True), ("rdb-v1", 3, True)]
    if thorough:
        hot = [(b, 20, po) for b, d, po in hot]
    for i, (backend, dur, ponly) in enumerate(hot):
        tr = os.path.join(vlib.OUT, "c14-hot-%d.ndjson" % i)
        args = ["serve-stress", "-hot", "-backend", backend, "-dur", "%ds" % dur, "-out", tr, "-id", str(100 + i), "-workers", "16"]
        if ponly:
            args.append("-partial-only")
        p = vlib.run_vh(args, timeout=dur + 120, check=False)
        if p.returncode != 0:
            tail = (p.stderr or "")[-1500:]
            m = re.search(r"(fatal error: [^\n]*|panic: [^\n]*|SIG[A-Z]+[^\n]*)", tail)
            sig = "crash|%s|%s" % (backend, re.sub(r"0x[0-9a-f]+|\d+", "N", m.group(1) if m else "exit %d" % p.returncode)[:80])
            rep.violation(sig, "hot stress on %s died (rc=%d): %s" % (backend, p.returncode, tail[-600:]), {"backend": backend, "args": args, "stderr": tail})
            continue
        info = json.loads(p.stdout.strip().splitlines()[-1])
        queries += info["queries"]
        reloads += info["reloads"]
        nbad = 0
        for raw in open(tr):
            e = json.loads(raw)
            if e.get("ev") in ("uac", "dblclose"):
                nbad += 1
                rep.violation("%s|%s|hot|method=%s" % ("UseAfterClose" if e["ev"] == "uac" else "DoubleClose", backend, e.get("method", "")),
                              "hot stress on %s: closed backend %s touched by %s (would crash a real backend)" % (backend, e.get("backend"), e.get("method")), {"event": e})
        traces.append((backend, tr))
        log("[C14] hot stress %s %ds: %d queries, %d reloads, %d touches of a closed backend" % (backend, dur, info["queries"], info["reloads"], nbad))
    # one ServeObs validation over all stress traces
    allp = os.path.join(vlib.OUT, "c14-all.ndjson")
    with open(allp, "w") as f:
        for _, tr in traces:
            f.write(open(tr).read())
    other = {}
    total = 0
    if traces:
        res = tv("ServeObs", allp, timeout=3000)
        total = res["total"]
        rows = None
        for why, sig, desc, rp in servelib.classify(allp, res["rejects"]):
            if why in servelib.REASONS["C14"]:
                rep.violation(sig, desc, rp)
            else:
                other[why] = other.get(why, 0) + 1
        # a reload that cannot finish within the stress' generous timeout is stuck (deadlock symptom)
        for raw in open(allp):
            e = json.loads(raw)
            if e.get("ev") == "rret" and e.get("err") == "timeout":
                rep.violation("stuck-reload|timeout", "a reload did not finish within its (generous) timeout under stress: %s" % raw.strip(), {"event": e})
    subprocess.run(["rm", "-rf", tmp])
    rep.cov = {}
    import c06
    c06.control(rep, "C14")          # the control plane at shutdown (Control.tla): crash or touch of a destroyed backend
    control_cov = rep.cov.get("control_plane")
    rep.cov = {"states": states, "transitions": trans, "traces_validated_against_impl": len(traces),
               "samples": [dict(backend=b, seconds=d, partial_only=p) for b, d, p in plans],
               "evaluations": queries + reloads, "distinct_nontrivial": reloads,
               "rule": "stress runs under the race detector; evaluations = queries served + reloads performed concurrently; non-trivial = reloads "
                       "executed while 8-12 query workers and a statistics reporter were running",
               "events_validated": total, "race_reports": races, "rejections_belonging_to_other_properties": other, "control_plane": control_cov}
    rep.assumptions = ["the Go race detector only sees races on executed paths", "TLC", "absence of a report is not a proof of race freedom"]
    return rep.finish()


def replay(path):
    d = json.load(open(path))
    print(json.dumps(d, indent=1)[:6000])
    return 0
