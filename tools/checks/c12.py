"""C12 - the response cache is invisible.

Second half (staleness) : servelib.run_property - StaleNeverServed model-checked on Serve.tla, TLC schedules that park a
                          query across a complete reload replayed on the real handler with the LRU enabled, ServeObs judges.
First half (invisibility): the same query history is fed to a cache-disabled and to a cache-enabled real handler over the
                          same database (CDB, RocksDB v1, v2); ResolveTrace.tla requires the same response position by
                          position (C12:cache-changes-answer; owner-name case folded, weighted address answers compared
                          by count), and judges every response against Resolve.tla as well.  Histories: every interesting
                          name x type asked by clients of different locations in turn (location ids that differ only in
                          their first / only in their second byte), repeated (hits), with and without EDNS / ECS, in
                          upper case, for negative, delegated, REFUSED and positive answers.
"""
import json
import random

import servelib
import semlib
import semgen
import semcheck
import semfam
import vlib
from semlib import L, nm
from vlib import tier, seed

LOCS = [0x0041, 0x0141, 0x0042]        # \000A \001A \000B


def history(rng):
    w = semgen.gen_world(rng, nrec=22, with_maps=False, weights=False, locs=LOCS)
    zone = w.zones[0]
    mid, emid = 0x6D31, 0x6532
    maps = [L("M", nm(zone), wild=True, mapid=mid), L("M", nm(zone), mapid=mid), L("8", nm(zone), wild=True, mapid=emid)]
    clients = {0: "10.9.9.9"}
    for i, lo in enumerate(LOCS):
        maps.append(semlib.net(lo, "10.%d.0.0/16" % (i + 1), mid))
        maps.append(semlib.net(lo, "172.%d.0.0/16" % (16 + i), emid))
        clients[lo] = "10.%d.3.4" % (i + 1)
    # make sure some names carry different non-weighted records per location
    extra = []
    for n in ("geo", "geo.sub"):
        extra.append(L("'", nm("%s.%s" % (n, zone)), rd=[117]))
        for lo in LOCS:
            extra.append(L("'", nm("%s.%s" % (n, zone)), rd=[108, 48 + (lo >> 8), 48 + (lo & 15)], loc=lo))
            extra.append(L("C", nm("c%s.%s" % (n, zone)), x=nm("t%x.%s" % (lo, zone)), loc=lo))
    lines = maps + w.lines + extra
    names = sorted(w.names) + [tuple(("geo." + zone).split(".")), tuple(("geo.sub." + zone).split(".")), tuple(("cgeo." + zone).split("."))]
    hist = []
    for n in names:
        qn = [[ord(c) for c in l] for l in n if l != ""]
        for t in sorted(set(rng.sample(semgen.QTYPES, 3)) | {16, 5}):
            order = [0] + LOCS
            rng.shuffle(order)
            for lo in order + [order[0]]:                       # the first client again: a hit on its own entry
                ecs = None
                rip = clients[lo]
                if rng.random() < 0.25 and lo:
                    ecs, rip = ("172.%d.9.0" % (16 + LOCS.index(lo)), 24), "192.0.2.1"   # the location comes from the client subnet
                hist.append(semlib.query(qn, t, rip, ecs=ecs, edns=rng.random() < 0.4, upper=rng.random() < 0.15, exact=True, maxans=8))
    return lines, hist


def invisibility(rep):
    thorough = tier() == "thorough"
    rng = random.Random(seed() * 1201 + 12)
    script = semlib.Script()
    nh = 0
    for _ in range(20 if thorough else 4):
        lines, hist = history(rng)
        nh += 1
        for phase, cache in ((0, False), (1, True)):
            script.file(lines, random.Random(nh), tag="c12", keep=bool(phase), opts={"cache": cache}, clause="C12:cache-changes-answer")
            for i, (q, c) in enumerate(hist):
                q = dict(q)
                q["cmp"] = bool(phase)
                script.q(q, c, qid=i + 1, tag="c12")
    trace, rows, res, info = semcheck.validate(script, "c12", backends="cdb,v1,v2")
    stats = {}
    semcheck.collect(rep, script, rows, res, ["C12:"], stats)
    rep.cov["invisibility"] = {"histories": nh, "queries_per_backend": info["queries"], "rejected_judgements": len(res["rejects"]),
                               "foreign_clauses": stats.get("foreign", {}),
                               "compared_positions": sum(1 for e in rows if e["ev"] == "q" and e["q"].get("cmp"))}
    rep.cov["evaluations"] = rep.cov.get("evaluations", 0) + info["queries"] * 3
    rep.cov["traces_validated_against_impl"] = rep.cov.get("traces_validated_against_impl", 0) + nh


def run():
    return servelib.run_property("C12", extra=invisibility)


def replay(path):
    """re-executes the recorded case on the current tree and lets TLC judge it again: exit 1 if it is still rejected"""
    d = json.load(open(path))
    print(json.dumps({k: v for k, v in d.items() if k != "replay"}, indent=1)[:3000])
    print("data file:\n" + d["replay"].get("data_file", "")[:4000])
    rej = semlib.replay_rows(path)
    if rej is None:
        return 0
    mine = [r for r in rej if str(r[2]).startswith(d["property"] + ":") or d["property"] == "C02"]
    if mine:
        print("VIOLATION property=%s replay=%s" % (d["property"], path))
        return 1
    print("not reproduced on the current tree")
    return 0
