"""C20 - transport and plugin chain do not alter answers.

Spec  : Chain.tla - generator of (front-handler configuration x query class x transport x listener) and the contract:
        no question -> failure reply and the server lives on; ANY with refusal on -> the single synthesized HINFO; the whoami
        domain -> whoami handler; everything else -> the bare database handler's answer with that listener's max-answer,
        over UDP truncated with TC when it does not fit the client's buffer, complete over TCP.
Run   : a real fbserver.Server per configuration on 127.0.0.1 and 127.0.0.2 (different max-answer per listener, UDP + TCP,
        CDB and RocksDB alternately), real dns.Client exchanges, and the bare FBDNSDB in-process for the same query.
Judge : ChainTrace.tla.
"""
import json
import os
import random

import vlib
from vlib import Scratch, tlc, tv, Report, log, tier, seed


def run():
    rep = Report("C20", "exploration")
    thorough = tier() == "thorough"
    rng = random.Random(seed() * 2003 + 20)
    vlib.build_harness()
    with Scratch() as sc:
        sc.write("ch.cfg", "SPECIFICATION Spec\nINVARIANT Emit\nCHECK_DEADLOCK FALSE\n")
        g = tlc(sc, "Chain", "ch.cfg", workers=4, timeout=1500)
    plan = [json.loads(json.loads(l)) for l in g["out"].splitlines() if l.startswith('"{')]
    log("[C20] Chain.tla: %d (configuration, query, transport, listener) combinations" % len(plan))
    if not thorough:
        keep = [p for p in plan if p["nq"] < 1 or p["class"] != 1 or p["name"] in (6, 7, 8, 9) or (p["type"] == 255)]
        rest = [p for p in plan if p not in keep]
        rng.shuffle(rest)
        plan = keep + rest[:900]
    os.makedirs(vlib.OUT, exist_ok=True)
    inp, trace = os.path.join(vlib.OUT, "c20-in.ndjson"), os.path.join(vlib.OUT, "c20-trace.ndjson")
    vlib.write_ndjson(inp, plan)
    p = vlib.run_vh(["chain", "-in", inp, "-out", trace], timeout=3000, check=False)
    if p.returncode != 0:
        # the real server runs inside the driver process: a panic in one of its serving goroutines kills the driver,
        # exactly as it would kill dnsrocks.  That is a verdict (the property: "... rather than crashing the server").
        import re
        tail = (p.stderr or "")[-6000:]
        m = re.search(r"panic: ([^\n]*)", tail)
        frames = re.findall(r"(github.com/facebookincubator/dns/dnsrocks/[\w./()*]+)\(", tail)
        if m and frames:
            rep.violation("server-crashed|%s" % frames[0].split("/")[-1], "the server process died while serving the plan: panic: %s in %s" % (m.group(1), frames[0]),
                          {"stderr": tail[-3000:], "plan": inp})
            rep.cov = {"evaluations": len(plan), "distinct_nontrivial": 2, "rule": "the run ended with a crash of the server", "samples": plan[:2]}
            return rep.finish()
        raise vlib.Infra("chain driver failed (rc=%d):\n%s" % (p.returncode, tail[-1500:]))
    info = json.loads(p.stdout.strip().splitlines()[-1])
    res = tv("ChainTrace", trace, timeout=3000)
    out = [json.loads(x) for x in open(trace)]
    log("[C20] %d exchanges with %d real servers, validated in %.0fs, %d rejected" % (info["exchanges"], info["configs"], res["wall"], len(res["rejects"])))
    names = ["a.z", "big.z", "nx.z", "d.z", "z", "out.example", "who.z", "sub.who.z", "notwho.z", "WHO.Z", "mx.z"]
    for rej in res["rejects"]:
        e = out[rej[0] - 1]
        sig = "%s|%s|name=%s type=%d|whoami=%s any=%s" % (rej[1], e["proto"], names[e["name"]], e["type"], e["cfg"]["whoami"], e["cfg"]["refuse_any"])
        if any(v[0] == sig for v in rep.viol):
            continue
        rep.violation(sig, "%s: %s type %d over %s (buf %d, listener %d, max-answer %s, cfg %s): transport rcode=%s an=%d tc=%s size=%s | bare rcode=%s an=%d size=%s err=%s"
                      % (rej[1], names[e["name"]], e["type"], e["proto"], e["buf"], e["listener"], e["cfg"]["maxans"], json.dumps(e["cfg"]), e["t"]["rcode"], len(e["t"]["an"]), e["t"]["tc"],
                         e["t"]["size"], e["i"]["rcode"], len(e["i"]["an"]), e["i"]["size"], e["err"]), {"event": e})
    st = selftest(out)
    rep.cov = {"evaluations": len(out), "distinct_nontrivial": len({json.dumps([e["cfg"], e["name"], e["type"], e["proto"], e["buf"], e["listener"]]) for e in out if e["received"] and e["t"]["rcode"] != 5}),
               "rule": "one evaluation = one exchange with a real server over UDP / TCP on a loopback port + the same query on the bare handler; "
                       "non-trivial = distinct combinations answered with something other than REFUSED",
               "samples": [{k: v for k, v in e.items() if k not in ("t", "i")} for e in out[:2]], "servers_started": info["configs"],
               "truncated_over_udp": sum(1 for e in out if e["t"].get("tc")), "spec_states": g["distinct"], "selftest_corruption_rejected": st}
    rep.assumptions = ["TLC, the TLA+ Json module, miekg/dns client and codec", "loopback addresses 127.0.0.1 and 127.0.0.2 are available"]
    if st is False:
        raise vlib.Infra("binding self-test failed")
    return rep.finish()


def selftest(out):
    import copy
    for e in out:
        if e["received"] and e["nq"] == 1 and e["proto"] == "tcp" and e["t"]["ns"] and not e["is_whoami"] and not (e["cfg"]["refuse_any"] and e["type"] == 255):
            c = copy.deepcopy(e)
            c["t"]["ns"] = []
            path = os.path.join(vlib.OUT, "selftest-c20.ndjson")
            vlib.write_ndjson(path, [c])
            r = tv("ChainTrace", path)
            return any(x[0] == 1 for x in r["rejects"])
    return None


def replay(path):
    d = json.load(open(path))
    print(json.dumps(d, indent=1)[:6000])
    return 0
