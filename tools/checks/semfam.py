"""Shared pieces of the serving-semantics checks C01 C02 C04 C10 C11: TLC generators (ResolveGen.tla, Reader.tla),
conversion of their output to data files + queries, evidence helpers."""
import ipaddress
import json
import random

import vlib
import semlib
import semgen
import semcheck
from semlib import L, nm, name, svcb
from vlib import tlc, log, tier, seed

# ----------------------------------------------------------------------------- ResolveGen (abstract lines straight from TLC)

def finish_line(l):
    """add the private rendering fields to an abstract line that came out of TLC"""
    l = dict(l)
    l["_ip"] = None
    if l["ipf"] == 4:
        l["_ip"] = ".".join(str(b) for b in l["ipb"][12:16])
    elif l["ipf"] == 6:
        l["_ip"] = str(ipaddress.IPv6Address(bytes(l["ipb"])))
    if l["t"] == "+":
        l["_numtext"] = str(l["num"][0]) if l["num"][0] >= 0 else ""
    if l["t"] in "HB":
        l["_params"] = next(t for t, w in semlib.SVCB_PARAMS if w == l["rd"])
    if l["t"] == "%":
        l["_net"] = "%s/%d" % (l["_ip"], l["netlen"] - (96 if l["ipf"] == 4 else 0))
    return l


RG_SKELETON = None


def rg_skeleton():
    global RG_SKELETON
    if RG_SKELETON is None:
        z = nm("z")
        RG_SKELETON = [L(".", z, ip="10.0.0.53", x=name("a"), xshort=True),
                       L("M", z, wild=True, mapid=28001), L("M", z, mapid=28001),
                       semlib.net(1, "10.1.0.0/16", 28001), semlib.net(2, "10.2.0.0/16", 28001)]
    return RG_SKELETON


RG_QNAMES = ["z", "a.z", "bb.a.z", "c.a.z", "a!.a.z", "a!.z", "c.a!.z", "c.z", "bb.z", "c.bb.z", "d.bb.z", "d.z", "c.d.z", "a.d.z", "s.z",
             "a.s.z", "c.s.z", "a.ns.z", "a.mx.z", "a.ns.d.z", "d.a.z", "c", ""]
RG_QTYPES = [1, 28, 2, 15, 16, 5, 6, 65]
RG_CLIENTS = {0: "10.9.9.9", 1: "10.1.0.7", 2: "10.2.3.4"}


def resolvegen(sc, k, emit=True, invariants=("OracleSatisfiable", "OracleDiscriminates", "NonInterference")):
    nm_ = "rg-%d-%d.cfg" % (k, emit)
    inv = list(invariants) + (["Emit"] if emit else [])
    sc.write(nm_, "SPECIFICATION Spec\nCONSTANTS K = %d EmitJson = %s\nINVARIANTS %s\nCHECK_DEADLOCK FALSE\n" % (k, "TRUE" if emit else "FALSE", " ".join(inv)))
    r = tlc(sc, "ResolveGen", nm_, workers=16, timeout=3300)
    files = []
    for line in r["out"].splitlines():
        if line.startswith('"['):
            files.append([finish_line(x) for x in json.loads(json.loads(line))])
    return r, files


RG_ECS = [("192.0.2.0", 24), ("10.1.5.0", 24), ("2001:db8::", 32), ("10.2.0.0", 16), ("198.51.100.7", 32)]


def rg_script(script, extra_lines, rng, qfrac=1.0, maxans=1, exact=False, tag="rg", keep=False, cmp=False, qids=None, locs=(0, 1, 2), opts=None, ecs_mod=0):
    """one ResolveGen file (skeleton + extra lines) and its query grid"""
    script.file(rg_skeleton() + extra_lines, rng, tag=tag, keep=keep, opts=opts)
    n = 0
    for qn in RG_QNAMES:
        for qt in RG_QTYPES:
            for loc in locs:
                n += 1
                if qfrac < 1.0 and rng.random() > qfrac:
                    continue
                # every ecs_mod-th query carries a client subnet (the universe has no ECS map: the resolver decides, scope 0)
                ecs = RG_ECS[(n // ecs_mod) % len(RG_ECS)] if ecs_mod and n % ecs_mod == 0 else None
                q, c = semlib.query(nm(qn), qt, RG_CLIENTS[loc], maxans=maxans, exact=exact, cmp=cmp, ecs=ecs)
                script.q(q, c, qid=n, tag=tag)


# ----------------------------------------------------------------------------- Reader.tla databases

def reader_dbs(sc, k, fix=("TRUE", "TRUE"), emit=True):
    nm_ = "rd-%d-%d.cfg" % (k, emit)
    sc.write(nm_, "SPECIFICATION Spec\nCONSTANTS K = %d FixBorder = %s FixCache = %s EmitJson = %s\nINVARIANTS Equiv%s\nCHECK_DEADLOCK FALSE\n"
             % (k, fix[0], fix[1], "TRUE" if emit else "FALSE", " Emit" if emit else ""))
    r = tlc(sc, "Reader", nm_, workers=16, timeout=3300)
    dbs = []
    for line in r["out"].splitlines():
        if line.startswith('"['):
            dbs.append(json.loads(json.loads(line)))
    return r, dbs


RD_QNAMES = ["bb", "a.bb", "bb.bb", "a!.bb", "a.a.bb", "bb.a.bb", "a.bb.bb", "a", "bb.bb.bb", "a!.a.bb"]
RD_LOC = {0: 0, 1: 1, 2: 2}
RD_CLIENTS = {0: "10.9.9.9", 1: "10.1.0.7", 2: "10.2.3.4"}


def rd_lines(entries):
    lines = [L(".", nm("bb"), x=name("a"), xshort=True)]
    for top in ("bb", "a"):
        lines.append(L("M", nm(top), wild=True, mapid=28001))
        lines.append(L("M", nm(top), mapid=28001))
    lines += [semlib.net(1, "10.1.0.0/16", 28001), semlib.net(2, "10.2.0.0/16", 28001)]
    for i, e in enumerate(sorted(entries, key=lambda e: json.dumps(e, sort_keys=True))):
        n = [list(l) for l in e["n"]]
        loc = RD_LOC[e["loc"]]
        k = e["kind"]
        if k == "A":
            lines.append(L("+", n, loc=loc, ip="10.7.%d.%d" % (i, e["loc"])))
        elif k == "AW":
            lines.append(L("+", n, wild=True, loc=loc, ip="10.8.%d.%d" % (i, e["loc"])))
        elif k == "NS":
            lines.append(L("&", n, loc=loc, x=nm("ns%d.other.net" % e["loc"])))
        elif k == "ZN":
            lines.append(L(".", n, loc=loc, x=name("b%d" % e["loc"]), xshort=True))
        elif k == "H":
            lines.append(svcb("H", n, [], 60 + e["loc"], 1, 1, loc=loc))       # distinct per location: no identical records
    return lines


def rd_script(script, entries, rng, tag="rd", opts=None, qtypes=(1, 65, 2, 6)):
    script.file(rd_lines(entries), rng, tag=tag, opts=opts)
    for qn in RD_QNAMES:
        for qt in qtypes:
            for loc in (0, 1, 2):
                q, c = semlib.query(nm(qn), qt, RD_CLIENTS[loc])
                script.q(q, c, tag=tag)


# ----------------------------------------------------------------------------- random worlds

LOC_POOL = [1, 2, 3, 258, 0x0041, 0x0061, 0x4142, 0x5A61, 0x0130]      # incl. bytes that are upper- / lower-case letters and digits (no key-marker bytes: ground rule 4)


def world_script(script, rng, n, maxans_choices=(1,), exact=False, per_name=4, opts_fn=None, **kw):
    for i in range(n):
        if "locs" not in kw and i % 2 == 1:
            kw2 = dict(kw, locs=sorted(rng.sample(LOC_POOL, 2)))
        else:
            kw2 = kw
        w = semgen.gen_world(rng, **kw2)
        script.file(w.lines, rng, tag="world", opts=opts_fn(rng) if opts_fn else None)
        for q, c in semgen.world_queries(w, rng, per_name=per_name, maxans_choices=maxans_choices, exact=exact):
            script.q(q, c, tag="world")


def nontrivial_queries(rows, pred):
    """distinct (file, query) for which pred(event) holds"""
    out = set()
    for e in rows:
        if e["ev"] == "q" and pred(e):
            out.add((e.get("file"), json.dumps(e["q"], sort_keys=True)))
    return len(out)


def sample_rows(rows, n=3):
    qs = [e for e in rows if e["ev"] == "q"]
    step = max(1, len(qs) // n)
    return [{"q": semlib.show_q(e["q"]), "responses": {b: semlib.show_resp(r) for b, r in e["r"].items()}} for e in qs[::step][:n]]
