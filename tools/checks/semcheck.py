"""Shared driver of the serving-semantics checks (C01 C02 C03 C04 C10 C11): run a script on the real servers
(`vh sem`), let TLC validate the recorded trace against Resolve.tla, and hand the rejected lines of the classes
that belong to the calling property to the report."""
import json
import os

import vlib
import semlib
from vlib import log


def validate(script, label, backends="cdb,cdbsep,v1,v2", env=None, race=False, extra=()):
    trace, info = semlib.run_sem(script, label, backends=backends, env=env, race=race, extra=extra)
    res = vlib.tv("ResolveTrace", trace, timeout=3400)
    rows = [json.loads(x) for x in open(trace)]
    log("[%s] %d files, %d queries, trace %d lines validated in %.0fs, %d rejected judgements"
        % (label, info["files"], info["queries"], res["total"], res["wall"], len(res["rejects"])))
    return trace, rows, res, info


def input_class(e):
    return e.get("tag") or "plain"


def collect(rep, script, rows, res, classes, stats, limit=40):
    """rejects -> violations of the calling property (clauses starting with one of `classes`); other clauses are
    counted in stats['foreign'] (they belong to a sibling property's check)."""
    n = 0
    for rej in res["rejects"]:
        line, backend, clause = rej[0], rej[1], rej[2]
        other = rej[3] if len(rej) > 3 else ""
        if not clause.startswith(tuple(classes)):
            stats.setdefault("foreign", {}).setdefault(clause, 0)
            stats["foreign"][clause] += 1
            continue
        if clause == "C02:backends-differ" and backend > other:
            continue                      # reported once per unordered pair
        e = rows[line - 1]
        sig = "%s|%s|%s" % (clause, backend + ("~" + other if other else ""), input_class(e))
        n += 1
        if n > limit and any(v[0] == sig for v in rep.viol):
            continue
        ctx = semlib.context_of(rows, line, script)
        if e["ev"] == "q":
            what = "%s: %s on %s%s -> %s" % (clause, semlib.show_q(e["q"]), backend, (" vs " + other) if other else "",
                                             semlib.show_resp(e["r"][backend]))
            if other:
                what += "  ||  %s: %s" % (other, semlib.show_resp(e["r"][other]))
        elif e["ev"] == "rp":
            what = "%s: range-point table of the real Rearranger for %s -> points %s" % (clause, json.dumps(e.get("netsc") or [[n["loc"], n["len"]] for n in e["nets"]])[:300],
                                                                                      json.dumps(e["points"])[:600])
        elif e["ev"] == "freq":
            what = "%s: %s asked %d times on %s -> counts %s other=%s" % (clause, semlib.show_q(e["q"]), e["n"], backend,
                                                                         json.dumps(e["counts"][backend]), e["other"][backend])
        elif e["ev"] == "loc":
            what = "%s: %s lookup of %s for %s on %s -> %s" % (clause, e["q"]["kind"], semlib.txt(e["q"]["name"]), semlib._ip_text(e["q"]["c"]) + "/%d" % e["q"]["c"]["len"],
                                                            backend, json.dumps(e["r"][backend]))
        else:
            what = "%s: %s" % (clause, json.dumps(e.get("comperr")))
        rep.violation(sig, what, ctx)
    return n


def selftest(trace, rows):
    """binding self-test: corrupt one recorded field (a TTL in an answer, or the rcode) and require TLC to reject it"""
    import copy
    cand = [i for i, e in enumerate(rows) if e["ev"] == "q" and any(r.get("written") and r["an"] for r in e["r"].values())]
    if not cand:
        return None
    i = cand[len(cand) // 2]
    # prefix up to the owning file line
    j = i
    while rows[j]["ev"] != "file":
        j -= 1
    sub = [rows[j], copy.deepcopy(rows[i])]
    b = sorted(k for k, r in sub[1]["r"].items() if r.get("written") and r["an"])[0]
    sub[1]["r"][b]["an"][0]["ttl"] += 1
    path = os.path.join(vlib.OUT, "selftest-sem.ndjson")
    vlib.write_ndjson(path, sub)
    r = vlib.tv("ResolveTrace", path)
    return any(x[0] == 2 and x[1] == b for x in r["rejects"])
