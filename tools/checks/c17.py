"""C17 - quoting is a bijection that never emits a field separator.

Spec  : Quote.tla - the escape grammar as a decoder Decode(q) plus NoSep(q); QuoteMC.tla checks the grammar against
        two trivially correct encoders for every byte string of length <= 2 (TLC).
Run   : real quote.Bquote / quote.Bunquote on EVERY byte string of length <= 2 (65793) and on seeded structured random
        strings (valid and invalid multi-byte UTF-8, U+FFFD, surrogates, controls, backslash / quote runs, separators,
        digits after escapes); every k-th string is also placed in a real data-file line (TXT text, owner label,
        target label), decoded, re-serialised with the real MarshalText and decoded again.
Judge : QuoteTrace.tla - Decode(q) = s, NoSep(q), Bunquote(q) = s; the re-serialised line compiles to the same keys
        and values and re-serialises to the same text.
"""
import json
import os

import vlib
from vlib import Scratch, tlc, tv, Report, log, tier, seed


def run():
    rep = Report("C17", "exploration")
    thorough = tier() == "thorough"
    vlib.build_harness()
    with Scratch() as sc:
        sc.write("q.cfg", "SPECIFICATION Spec\nCONSTANT MaxLen = 2\nINVARIANT GrammarOk\nCHECK_DEADLOCK FALSE\n")
        r = tlc(sc, "QuoteMC", "q.cfg", workers=16, timeout=3000)
    log("[C17] QuoteMC: grammar self-check on %d byte strings (%.0fs)" % (r["distinct"], r["wall"]))
    os.makedirs(vlib.OUT, exist_ok=True)
    t1, t2 = os.path.join(vlib.OUT, "c17-exh.ndjson"), os.path.join(vlib.OUT, "c17-rnd.ndjson")
    p1 = vlib.run_vh(["quote", "-mode", "exhaustive", "-maxlen", "2", "-sample2", "300000" if thorough else "20000", "-fields", "8" if thorough else "16", "-out", t1])
    p2 = vlib.run_vh(["quote", "-mode", "random", "-n", "300000" if thorough else "40000", "-fields", "2", "-out", t2])
    i1, i2 = json.loads(p1.stdout.strip().splitlines()[-1]), json.loads(p2.stdout.strip().splitlines()[-1])
    nrej = 0
    nontrivial = 0
    samples = []
    for path in (t1, t2):
        res = tv("QuoteTrace", path, timeout=3000)
        log("[C17] %s: %d lines validated in %.0fs, %d rejected" % (os.path.basename(path), res["total"], res["wall"], len(res["rejects"])))
        nrej += len(res["rejects"])
        rows = None
        if res["rejects"]:
            rows = open(path).read().splitlines()
        for rej in res["rejects"][:200]:
            e = json.loads(rows[rej[0] - 1])
            s = bytes(e["s"])
            cls = "ascii" if all(b < 128 for b in s) else "non-ascii"
            sig = "%s|%s|%s" % (rej[1], e["ev"] + (":" + e["kind"] if e["ev"] == "field" else ""), cls)
            rep.violation(sig, "%s: s=%r %s" % (rej[1], s, ("q=%r u=%r err=%s" % (bytes(e["q"]), bytes(e["u"]), e["err"])) if e["ev"] == "q"
                                              else ("line=%r text=%r err=%s" % (e["line"], e["text"], e["err"]))), {"event": e})
        with open(path) as f:
            for k, raw in enumerate(f):
                if '"ev":"q"' in raw:
                    e = json.loads(raw)
                    if e["q"] != e["s"]:
                        nontrivial += 1
                        if len(samples) < 3 and k % 977 == 0:
                            samples.append(e)
    st = selftest()
    rep.cov = {"evaluations": i1["lines"] + i2["lines"], "distinct_nontrivial": nontrivial,
               "rule": "every byte string of length <= 2, seeded random strings of length 3 and structured random strings (distinct by construction in the exhaustive part); "
                       "non-trivial = strings whose quoted form differs from the string (an escape was needed)",
               "samples": samples or [{"note": "see out/c17-exh.ndjson"}], "exhaustive": True, "strings": i1["strings"] + i2["strings"],
               "grammar_selfcheck_states": r["distinct"], "rejected": nrej, "selftest_corruption_rejected": st}
    rep.assumptions = ["TLC, the TLA+ Json module", "the escape grammar of Quote.tla is the data-file grammar (Go-style escapes)"]
    if st is False:
        raise vlib.Infra("binding self-test failed")
    return rep.finish()


def selftest():
    path = os.path.join(vlib.OUT, "selftest-c17.ndjson")
    # "," quoted as "\054" is right; a quoted form that keeps the comma, or decodes to something else, must be rejected
    vlib.write_ndjson(path, [{"ev": "q", "s": [44], "q": [44], "u": [44], "err": ""}, {"ev": "q", "s": [200], "q": [92, 120, 99, 57], "u": [200], "err": ""},
                             {"ev": "q", "s": [44], "q": [92, 48, 53, 52], "u": [44], "err": ""}])
    r = tv("QuoteTrace", path)
    return sorted(x[0] for x in r["rejects"]) == [1, 2]


def replay(path):
    d = json.load(open(path))
    print(json.dumps(d, indent=1)[:6000])
    return 0
