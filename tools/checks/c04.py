"""C04 - a client sees its own location's records plus untagged ones, nothing else.

1. MC  : ResolveGen.tla NonInterference - on the oracle, adding a line tagged with another location never changes the
         ideal response for a client of location L (all files of the universe, all foreign lines, all queries).
2. RUN : metamorphic replay on the real servers: file F, then F' = F edited only in records tagged with locations
         other than L / in maps that do not apply to the queried names (lines added, removed, changed); every query of
         clients in L is asked on both and ResolveTrace.tla requires the same response (C04:changed-by-foreign-edit),
         on CDB, RocksDB v1 and v2; address answers are asked with a large max-answer so they are complete sets.
   Second relation (tag erasure): the records a client of L sees, written as an untagged file, must answer that
   client exactly as the tagged file does - the answer depends on the visible records only, not on how they are tagged.
   Files: every TLC-enumerated ResolveGen file with every subset-edit of its foreign candidate lines (sampled), and
   seeded random worlds with a generic foreign-edit generator (located copies of existing records, located
   wildcards, located zone apex / delegation at existing names, unrelated maps and subnets).
"""
import copy
import json
import random

import vlib
import semlib
import semcheck
import semfam
import semgen
from semlib import L, nm, name
from vlib import Scratch, Report, log, tier, seed

MAXANS = 8


def foreign_cands(files, loc):
    """all located candidate lines of the universe that are foreign to a client of `loc`"""
    seen, out = set(), []
    for f in files:
        for l in f:
            if l["loc"] not in (0, loc):
                k = json.dumps(semlib.strip(l), sort_keys=True)
                if k not in seen:
                    seen.add(k)
                    out.append(l)
    return out


def unrelated_maps(rng):
    """maps and subnets that do not apply to any name under z"""
    out = [L("M", nm("other.net"), wild=True, mapid=28002), L("M", nm("x.other.net"), mapid=28003), L("8", nm("other.net"), wild=True, mapid=28004)]
    for mid in (28002, 28003, 28004):
        out.append(semlib.net(rng.choice([1, 2]), rng.choice(["10.1.0.0/16", "10.0.0.0/8", "10.1.0.0/24", "10.2.3.4/32"]), mid))
    # the default map (subnets without a map id) does not apply to names that have a map of their own, and never to a client subnet
    dflt = [semlib.net(rng.choice([1, 2, 9]), c, 0) for c in rng.sample(["192.0.2.0/24", "10.1.5.0/24", "2001:db8::/32", "198.51.100.0/24", "10.0.0.0/8"], rng.randrange(0, 3))]
    return rng.sample(out[:3], rng.randrange(1, 4)) + out[3:] + dflt


def rg_pair(script, base, edit_before, edit_after, loc, rng):
    """F = base + edit_before, F' = base + edit_after; all queries of clients in `loc` compared"""
    semfam.rg_script(script, base + edit_before, rng, maxans=MAXANS, exact=True, tag="c04", locs=(loc,), ecs_mod=3)
    semfam.rg_script(script, base + edit_after, rng, maxans=MAXANS, exact=True, tag="c04", keep=True, cmp=True, locs=(loc,), ecs_mod=3)


def erased(lines):
    """the same records with the location tags removed (what a client of that location sees, as an untagged file)"""
    out, seen = [], set()
    for l in lines:
        c = copy.deepcopy(l)
        if c["t"] not in "M8%":
            c["loc"] = 0
        k = json.dumps(semlib.strip(c), sort_keys=True)
        if k not in seen:
            seen.add(k)
            out.append(c)
    return out


def world_pair(script, rng):
    w = semgen.gen_world(rng, nrec=18, nloc=2, with_maps=False, weights=False,
                         locs=sorted(rng.sample(semfam.LOC_POOL, rng.choice([2, 3]))) if rng.random() < 0.6 else None)
    zone = w.zones[0]
    locs = [l for l in w.locs if l]
    if len(locs) < 2:
        return False
    mid = 0x6D31
    maps = [L("M", nm(zone), wild=True, mapid=mid), L("M", nm(zone), mapid=mid)]
    clients = {0: "10.9.9.9"}
    for i, lo in enumerate(locs):
        maps.append(semlib.net(lo, "10.%d.0.0/16" % (i + 1), mid))
        clients[lo] = "10.%d.3.4" % (i + 1)
    Lc = rng.choice([0] + locs)
    others = [l for l in locs if l != Lc]
    base = [l for l in w.lines if l["loc"] in (0, Lc)]
    foreign_existing = [l for l in w.lines if l["loc"] not in (0, Lc)]
    # new foreign lines: located copies of visible records with other data, located wildcards / apexes / delegations
    new = []
    for l in rng.sample(base, min(len(base), 6)):
        if l["t"] in "M8%":
            continue
        c = copy.deepcopy(l)
        c["loc"] = rng.choice(others)
        if c["ipf"] == 4:
            c["_ip"] = "10.66.%d.%d" % (rng.randrange(256), rng.randrange(1, 255))
            c["ipf"], c["ipb"] = semlib.ip16(c["_ip"])
        if c["t"] == "'":
            c["rd"] = [102, 111, 114, 101, 105, 103, 110]
        c["ttl"] = rng.choice([-1, 7, 77])
        new.append(c)
    names = sorted(w.names)
    for _ in range(rng.randrange(1, 5)):
        n = ".".join(rng.choice(names)) or zone
        if not n.endswith(zone):
            continue
        lo = rng.choice(others)
        kind = rng.choice(["wild", "apex", "deleg", "addr", "cname"])
        if kind == "wild":
            new.append(L("+", nm(n), wild=True, loc=lo, ip="10.67.0.%d" % rng.randrange(1, 255)))
        elif kind == "apex" and n != zone:
            new.append(L(".", nm(n), loc=lo, x=name("f"), xshort=True))
        elif kind == "deleg" and n != zone:
            new.append(L("&", nm(n), loc=lo, x=nm("ns.foreign.net"), ip=None))
        elif kind == "addr":
            new.append(L("+", nm(n), loc=lo, ip="10.68.0.%d" % rng.randrange(1, 255)))
        elif kind == "cname":
            new.append(L("C", nm(n), loc=lo, x=nm("t.foreign.net")))
    if rng.random() < 0.5:
        new += [L("M", nm("other.net"), wild=True, mapid=0x6D39), semlib.net(rng.choice(locs), "10.0.0.0/8", 0x6D39)]
    before = rng.sample(foreign_existing, rng.randrange(0, len(foreign_existing) + 1)) + rng.sample(new, rng.randrange(0, len(new) + 1))
    after = rng.sample(foreign_existing, rng.randrange(0, len(foreign_existing) + 1)) + rng.sample(new, rng.randrange(0, len(new) + 1))
    queries = []
    for n in names:
        for t in sorted(set(rng.sample(semgen.QTYPES, 4)) | {1, 2}):
            queries.append(semlib.query([[ord(c) for c in l] for l in n if l != ""], t, clients[Lc], maxans=MAXANS, exact=True))
    apex = [json.dumps(l["dom"]) for l in base if l["t"] in ".Z"]
    if Lc and len(apex) == len(set(apex)) and rng.random() < 0.5:
        base2, after = erased(base), []          # tag erasure instead of a foreign edit
    else:
        base2 = base
    for phase, extra in ((0, before), (1, after)):
        script.file(maps + (base2 if phase else base) + extra, rng, tag="c04w", keep=bool(phase))
        for i, (q, c) in enumerate(queries):
            q = dict(q)
            q["cmp"] = bool(phase)
            script.q(q, c, qid=i + 1, tag="c04w")
    return True


def run():
    rep = Report("C04", "model_checking")
    thorough = tier() == "thorough"
    rng = random.Random(seed() * 3301 + 4)
    vlib.build_harness()
    with Scratch() as sc:
        r, files = semfam.resolvegen(sc, 3 if thorough else 2, invariants=("NonInterference",))
    log("[C04] ResolveGen NonInterference holds on %d files (%.0fs)" % (r["distinct"], r["wall"]))
    files = [f for f in files if f]
    rng.shuffle(files)
    script = semlib.Script()
    npairs = 0
    for f in files[:(400 if thorough else 60)]:          # thorough: about 600 000 judged lines (30-40 min)
        for loc in (0, 1, 2):
            base = [l for l in f if l["loc"] in (0, loc)]
            fc = foreign_cands(files, loc)
            k = rng.randrange(1, 4)
            before = rng.sample(fc, rng.randrange(0, 3))
            after = rng.sample(fc, k)
            if rng.random() < 0.45:
                after = after + unrelated_maps(rng)
            if rng.random() < 0.3 and before:
                ch = copy.deepcopy(before[0])           # the same foreign record with another TTL
                ch["ttl"] = 4242
                after = [ch] + after
            if rng.random() < 0.7:
                rg_pair(script, base, before, after, loc, rng)
                npairs += 1
            # (a zone with two SOA records - a tagged and an untagged apex line - is ambiguous about which SOA goes into
            # negative answers: erasing the tags changes the storage order, so such files are left out of this relation)
            apex = [json.dumps(l["dom"]) for l in base if l["t"] in ".Z"]
            if loc and any(l["loc"] == loc for l in base) and len(apex) == len(set(apex)) and rng.random() < 0.6:
                # tag erasure: the client's own view written as an untagged file must answer the same
                semfam.rg_script(script, base + before, rng, maxans=MAXANS, exact=True, tag="c04e", locs=(loc,))
                semfam.rg_script(script, erased(base), rng, maxans=MAXANS, exact=True, tag="c04e", keep=True, cmp=True, locs=(loc,))
                npairs += 1
    for _ in range(120 if thorough else 14):
        if world_pair(script, rng):
            npairs += 1
    trace, rows, res, info = semcheck.validate(script, "c04", backends="cdb,v1,v2")
    stats = {}
    semcheck.collect(rep, script, rows, res, ["C04:"], stats)
    st = selftest(rows)
    rep.cov = {"states": r["distinct"], "transitions": r["generated"], "traces_validated_against_impl": npairs,
               "samples": semfam.sample_rows([e for e in rows if e["ev"] == "q" and e["q"].get("cmp")]),
               "evaluations": info["queries"] * 3,
               "distinct_nontrivial": semfam.nontrivial_queries(rows, lambda e: e["q"].get("cmp") and any(x.get("written") and x["rcode"] != 5 for x in e["r"].values())),
               "rule": "pairs (F, F') differing only in lines tagged with locations other than the client's, or in maps/subnets of unrelated names; every "
                       "query of the grid asked on both files on cdb, rocksdb-v1, rocksdb-v2; non-trivial = distinct compared (file, query) not answered REFUSED",
               "file_pairs": npairs, "rejected_judgements": len(res["rejects"]), "foreign_clauses": stats.get("foreign", {}),
               "selftest_corruption_rejected": st}
    rep.assumptions = ["TLC, the TLA+ Json module, miekg/dns as message codec", "address answers are complete sets (max-answer 8 >= candidates; weight 0 only in the universe's own class)"]
    if st is False:
        raise vlib.Infra("binding self-test failed: a response changed by the edit was accepted")
    return rep.finish()


def selftest(rows):
    import os
    # find a compared query with an answer, alter the answer of one backend in the second phase
    first = {}
    for i, e in enumerate(rows):
        if e["ev"] == "file":
            cur = i
            if not e.get("keep"):
                first = {}
                base = i
        elif e["ev"] == "q":
            if not e["q"].get("cmp"):
                first[e["qid"]] = i
            elif e["qid"] in first and all(r.get("written") and r["an"] for r in e["r"].values()):
                sub = [rows[base], rows[first[e["qid"]]], rows[cur], copy.deepcopy(e)]
                b = sorted(sub[3]["r"])[0]
                sub[3]["r"][b]["an"] = sub[3]["r"][b]["an"][1:]
                path = os.path.join(vlib.OUT, "selftest-c04.ndjson")
                vlib.write_ndjson(path, sub)
                r = vlib.tv("ResolveTrace", path)
                return any(x[2] == "C04:changed-by-foreign-edit" for x in r["rejects"])
    return None


def replay(path):
    """re-executes the recorded case on the current tree and lets TLC judge it again: exit 1 if it is still rejected"""
    d = json.load(open(path))
    print(json.dumps({k: v for k, v in d.items() if k != "replay"}, indent=1)[:3000])
    print("data file:\n" + d["replay"].get("data_file", "")[:4000])
    rej = semlib.replay_rows(path)
    if rej is None:
        return 0
    mine = [r for r in rej if str(r[2]).startswith(d["property"] + ":") or d["property"] == "C02"]
    if mine:
        print("VIOLATION property=%s replay=%s" % (d["property"], path))
        return 1
    print("not reproduced on the current tree")
    return 0
