"""C11 - weighted address selection is bounded, sound and proportional.

1. MC  : Wrs.tla - the reservoir of db/wrs.go (keys u^(1/w), strict-greater replacement, eviction of the minimum) is
         model-checked Sound / Exact / TopK for every weight vector, max-answer and draw tuple of a grid, and
         Proportional (max = 1) by counting winning tuples.
2. RUN : (a) bounds and soundness: candidate sets of 1..7 addresses per family with weights from {0,1,2,3,5,2^32-1},
         mixed locations, wildcard owners, NS / MX targets with several addresses; max-answer 1..8; every query
         repeated with fresh draws - judged by Resolve.tla (SelectionOk, AdditionalOk);
         (b) proportionality: the shared generator re-seeded from VERIF_SEED, a single-address query asked 20000 times
         per backend, observed frequencies within 6 sigma of w / W (ResolveTrace JudgeFreq) - deterministic per seed;
         (c) concurrent use of the shared generator: the same bounds with 8 goroutines, built with the race detector.
"""
import glob
import json
import os
import random
import tempfile

import vlib
import semlib
import semcheck
import semfam
import c14
from semlib import L, nm, name
from vlib import Scratch, tlc, Report, log, tier, seed

WEIGHTS = [None, None, 1, 1, 0, 2, 3, 5, 4294967295]
LOCA, LOCB = 0x4101, 0x4102


def addr_line(owner, ip, wt, loc=0, wild=False, ttl=-1):
    l = L("+", nm(owner), wild=wild, loc=loc, ip=ip, ttl=ttl, num=[min(wt, 2147483647) if wt is not None else -1])
    l["_numtext"] = "" if wt is None else str(wt)
    return l


def wrs_file(script, rng, nnames, reps, tag="wrs", small=False):
    z = "w.example"
    lines = [L(".", nm(z), x=name("a"), xshort=True), L("M", nm(z), wild=True, mapid=0x6D31), L("M", nm(z), mapid=0x6D31),
             semlib.net(LOCA, "10.1.0.0/16", 0x6D31), semlib.net(LOCB, "10.2.0.0/16", 0x6D31)]
    clients = {0: "10.9.9.9", LOCA: "10.1.0.7", LOCB: "10.2.3.4"}
    owners = []
    ipn = [0]

    def ip(v6):
        ipn[0] += 1
        return ("2001:db8::%x" % ipn[0]) if v6 else "10.77.%d.%d" % (ipn[0] // 250, 1 + ipn[0] % 250)

    for i in range(nnames):
        owner = "n%d.%s" % (i, z)
        wild = rng.random() < 0.2
        weights = ([1, 1, 2, 3, 0, 1] if small else WEIGHTS)
        for v6 in (False, True):
            for _ in range(rng.choice([0, 1, 2, 3, 4, 7] if not v6 else [0, 0, 1, 2, 4])):
                lines.append(addr_line(owner, ip(v6), rng.choice(weights), loc=rng.choice([0, 0, 0, LOCA, LOCB]), wild=wild, ttl=rng.choice([-1, 30])))
        owners.append(("x." + owner) if wild else owner)
        if rng.random() < 0.2:            # only weight-0 candidates: the name exists, nothing is served
            o2 = "z%d.%s" % (i, z)
            lines.append(addr_line(o2, ip(False), 0))
            lines.append(addr_line(o2, ip(False), 0, loc=LOCA))
            owners.append(o2)
    # NS / MX targets with several addresses (additional section: at most one per family, same rule)
    for j in range(2):
        tgt = "t%d.%s" % (j, z)
        lines.append(L("@", nm("mx%d.%s" % (j, z)), x=nm(tgt), num=[10]))
        lines.append(L("&", nm("sub%d.%s" % (j, z)), x=nm(tgt)))
        for _ in range(rng.randrange(1, 4)):
            lines.append(addr_line(tgt, ip(False), rng.choice([None, 1, 0, 2]), loc=rng.choice([0, LOCA])))
        for _ in range(rng.randrange(0, 3)):
            lines.append(addr_line(tgt, ip(True), rng.choice([None, 1, 0, 2])))
        owners += ["mx%d.%s" % (j, z), "q.sub%d.%s" % (j, z)]
    # one IPv4-only host named twice in a reply: two MX of one owner, and MX + NS of one owner
    for j in range(2):
        host = "shared%d.%s" % (j, z)
        for _ in range(rng.randrange(2, 4)):
            lines.append(addr_line(host, ip(False), rng.choice([None, 1, 2])))
        lines.append(L("@", nm("mm%d.%s" % (j, z)), x=nm(host), num=[10]))
        lines.append(L("@", nm("mm%d.%s" % (j, z)), x=nm(host), num=[20]))
        lines.append(L("&", nm("dd%d.%s" % (j, z)), x=nm(host)))
        lines.append(L("&", nm("dd%d.%s" % (j, z)), x=nm(host), ttl=77))
        owners += ["mm%d.%s" % (j, z), "q.dd%d.%s" % (j, z)]
    script.file(lines, rng, tag=tag)
    for o in owners:
        for loc in (0, LOCA, LOCB):
            for qt in ((1, 28) if not o.startswith(("mx", "q.sub", "mm", "q.dd")) else (15, 1)):
                for ma in rng.sample(range(1, 9), 3):
                    q, c = semlib.query(nm(o), qt, clients[loc], maxans=ma)
                    script.q(q, c, tag=tag, reps=reps)
    return lines, owners, clients


def freq_file(script, rng, n):
    z = "f.example"
    lines = [L(".", nm(z), x=name("a"), xshort=True), L("M", nm(z), wild=True, mapid=0x6D31), semlib.net(LOCA, "10.1.0.0/16", 0x6D31)]
    qs = []
    vecs = [[1, 1], [1, 3], [2, 1, 1], [1, 2, 3], [5, 1], [1, 0, 1], [3, 3, 3, 3], [1, 1, 1, 1, 1, 1], [4, 1, 1, 0, 2]]
    rng.shuffle(vecs)
    # huge weights: only their ratio matters (the judge divides by the gcd); 2^32-1 is the largest weight the format takes
    big = [[4294967295, 4294967295], [1000000000, 2000000000], [3000000, 1000000, 2000000], [2000000000, 2000000000, 2000000000, 2000000000]]
    rng.shuffle(big)
    vecs = vecs[:max(1, n - 2)] + big[:2]
    for i, ws in enumerate(vecs[:n]):
        owner = "p%d.%s" % (i, z)
        v6 = rng.random() < 0.3
        wild = rng.random() < 0.2
        order = list(ws)
        rng.shuffle(order)
        for j, w in enumerate(order):
            ip = ("2001:db8:f::%x" % (i * 16 + j + 1)) if v6 else "10.88.%d.%d" % (i, j + 1)
            lines.append(addr_line(owner, ip, w if not (w == 1 and rng.random() < 0.5) else None, wild=wild))
        if max(ws) > 1000:
            qs.append(semlib.query(nm(("y." + owner) if wild else owner), 28 if v6 else 1, "10.9.9.9", maxans=1))
            continue                      # no located extra candidate here: keep the ratios exact
        # a located candidate that a client without location must never draw
        lines.append(addr_line(owner, "10.89.%d.1" % i if not v6 else "2001:db8:e::%x" % (i + 1), 3, loc=LOCA, wild=wild))
        qs.append(semlib.query(nm(("y." + owner) if wild else owner), 28 if v6 else 1, "10.9.9.9", maxans=1))
    script.file(lines, rng, tag="freq")
    for q, c in qs:
        script.freq(q, c, 20000)


def run():
    rep = Report("C11", "model_checking")
    thorough = tier() == "thorough"
    rng = random.Random(seed() * 6101 + 11)
    vlib.build_harness()
    vlib.build_harness(race=True)
    with Scratch() as sc:
        sc.write("wrs.cfg", "SPECIFICATION Spec\nCONSTANTS NC = 3 MaxW = 3 N = %d MaxK = 3\nINVARIANTS Sound Exact TopK Proportional\nCHECK_DEADLOCK FALSE\n" % (24 if thorough else 10))
        r = tlc(sc, "Wrs", "wrs.cfg", workers=16, timeout=3300)
        states, trans = r["distinct"], r["generated"]
        log("[C11] Wrs.tla: %d (weight vector, max) cases x all draw tuples: Sound, Exact, TopK, Proportional (%.0fs)" % (r["distinct"], r["wall"]))
    # (a) bounds + soundness
    script = semlib.Script()
    for _ in range(12 if thorough else 2):
        wrs_file(script, rng, 8, reps=12 if thorough else 6)
    semfam.world_script(script, rng, 40 if thorough else 4, maxans_choices=(1, 2, 3, 8), weights=True)
    trace, rows, res, info = semcheck.validate(script, "c11")
    stats = {}
    semcheck.collect(rep, script, rows, res, ["C11:"], stats)
    # (b) proportionality, generator re-seeded from VERIF_SEED
    fs = semlib.Script()
    for _ in range(4 if thorough else 1):
        freq_file(fs, rng, 9 if thorough else 5)
    ftrace, frows, fres, finfo = semcheck.validate(fs, "c11f", env={"VH_SEM_SEEDRAND": "1"})
    semcheck.collect(rep, fs, frows, fres, ["C11:"], stats)
    # (c) concurrent use of the shared generator (race detector build)
    cs = semlib.Script()
    wrs_file(cs, rng, 5, reps=64 if thorough else 24, tag="conc", small=True)
    tmp = tempfile.mkdtemp(prefix="verif-c11-")
    ctrace, crows, cres, cinfo = semcheck.validate(cs, "c11c", backends="cdb,v1,v2", race=True, extra=["-conc", "8"],
                                                   env={"GORACE": "halt_on_error=0 log_path=" + os.path.join(tmp, "race")})
    semcheck.collect(rep, cs, crows, cres, ["C11:"], stats)
    racetext = "".join(open(f).read() for f in glob.glob(os.path.join(tmp, "race*")))
    nraces = 0
    for blk in c14.race_blocks(racetext):
        fr = c14.frames(blk)
        if all("verifharness" in f or "main." in f for f in fr):
            raise vlib.Infra("data race inside the harness itself:\n" + blk[:1500])
        nraces += 1
        sig = "C11:race|" + "|".join(sorted(fr))
        rep.violation(sig, "data race while 8 goroutines draw from the shared generator: %s / %s" % (fr[0], fr[1]), {"report": blk[:4000]})
    import shutil
    shutil.rmtree(tmp, ignore_errors=True)
    st = selftest(frows)
    weighted = lambda e: any(len([x for x in r["an"] if x["t"] in (1, 28)]) >= 1 for r in e["r"].values() if r.get("written"))
    rep.cov = {"states": states, "transitions": trans, "traces_validated_against_impl": info["files"] + finfo["files"] + cinfo["files"],
               "samples": semfam.sample_rows(rows) + [e for e in frows if e["ev"] == "freq"][:1],
               "evaluations": (info["queries"] + finfo["queries"]) * 4 + cinfo["queries"] * 3,
               "distinct_nontrivial": semfam.nontrivial_queries(rows, weighted) + sum(1 for e in frows if e["ev"] == "freq"),
               "rule": "(a) address / MX / delegation queries over generated candidate sets, each repeated with fresh draws, max-answer 1..8; (b) frequency "
                       "vectors of 20000 draws per backend with the generator seeded from VERIF_SEED; (c) the bounds with 8 concurrent goroutines under the "
                       "race detector; non-trivial = distinct (file, query) that served at least one address + frequency vectors",
               "frequency_vectors": sum(1 for e in frows if e["ev"] == "freq"), "race_reports": nraces,
               "rejected_judgements": len(res["rejects"]) + len(fres["rejects"]) + len(cres["rejects"]), "foreign_clauses": stats.get("foreign", {}),
               "selftest_corruption_rejected": st}
    rep.assumptions = ["TLC; math/rand's uniformity", "frequency resolution: deviations below 6 sigma (about 2-3 % absolute at 20000 draws) are not detected",
                       "the race detector only sees executed interleavings"]
    if st is False:
        raise vlib.Infra("binding self-test failed: a skewed frequency vector was accepted")
    return rep.finish()


def selftest(frows):
    import copy
    for i, e in enumerate(frows):
        if e["ev"] == "freq" and all(len(c) >= 2 for c in e["counts"].values()):
            j = i
            while frows[j]["ev"] != "file":
                j -= 1
            sub = [frows[j], copy.deepcopy(e)]
            b = sorted(sub[1]["counts"])[0]
            cs = sub[1]["counts"][b]
            cs[0]["c"] += 1500
            cs[1]["c"] -= 1500
            path = os.path.join(vlib.OUT, "selftest-c11.ndjson")
            vlib.write_ndjson(path, sub)
            r = vlib.tv("ResolveTrace", path)
            return any(x[0] == 2 and x[1] == b and x[2] == "C11:proportion" for x in r["rejects"])
    return None


def replay(path):
    """re-executes the recorded case on the current tree and lets TLC judge it again: exit 1 if it is still rejected"""
    d = json.load(open(path))
    print(json.dumps({k: v for k, v in d.items() if k != "replay"}, indent=1)[:3000])
    print("data file:\n" + d["replay"].get("data_file", "")[:4000])
    rej = semlib.replay_rows(path)
    if rej is None:
        return 0
    mine = [r for r in rej if str(r[2]).startswith(d["property"] + ":") or d["property"] == "C02"]
    if mine:
        print("VIOLATION property=%s replay=%s" % (d["property"], path))
        return 1
    print("not reproduced on the current tree")
    return 0
