"""C07 - compilation is a deterministic, lossless function of the data file.

1. MC  : Compile.tla - scanner, W parser workers, results channel and the three sinks (CDB writer; batches with <= P
         concurrent ExecuteBatch read-modify-writes under the write mutex + final flush; builder: sort, createBuckets
         with "equal keys stay together", one SST per bucket, ingest): every interleaving of small configurations ends
         with store = multiset-by-key of the codec output; a rejected line fails the run; the run terminates.
2. RUN : real cdb.CreateCDB / rdb.CompileToSpecificRDBVersion over the settings grid (workers x builder|batches x
         batch size x batch parallelism x v1|v2 keys) on small random files, hot-key files (hundreds of values under one
         key, repeated lines, batch size 1..7 so batches race on one key), a > 70000-record file whose runs of equal keys
         straddle the builder's bucket boundaries, and files with one rejected line.
3. TV  : StoreTrace.tla - dump of the produced database = what the sequential codec emits, as key -> multiset.
"""
import json
import os
import random

import vlib
import semlib
import semgen
from vlib import Scratch, tlc, tv, Report, log, tier, seed

SERIAL = 1700000000


def S(name, kind, builder=False, numcpu=1, batch=1000, parallel=1, v2=False):
    return {"name": name, "kind": kind, "builder": builder, "numcpu": numcpu, "batch": batch, "parallel": parallel, "v2": v2}


GRID_SMALL = [S("cdb-1", "cdb", numcpu=1), S("cdb-16", "cdb", numcpu=16),
              S("b-1-v1", "rdb", batch=1, parallel=1, numcpu=1), S("b-7-p4-v2", "rdb", batch=7, parallel=4, numcpu=2, v2=True),
              S("b-def-p4-v1", "rdb", batch=0, parallel=4, numcpu=16), S("b-3-p4-v2", "rdb", batch=3, parallel=4, numcpu=16, v2=True)]
GRID_BUILDER = [S("bld-1-v1", "rdb", builder=True, numcpu=1), S("bld-16-v2", "rdb", builder=True, numcpu=16, v2=True)]
GRID_HOT = [S("cdb-4", "cdb", numcpu=4), S("b-1-p4-v1", "rdb", batch=1, parallel=4, numcpu=4), S("b-2-p4-v2", "rdb", batch=2, parallel=4, numcpu=4, v2=True),
            S("b-3-p2-v1", "rdb", batch=3, parallel=2, numcpu=16), S("b-7-p4-v2", "rdb", batch=7, parallel=4, numcpu=16, v2=True)]
GRID_BIG = [S("cdb-16", "cdb", numcpu=16), S("bld-16-v1", "rdb", builder=True, numcpu=16), S("bld-2-v2", "rdb", builder=True, numcpu=2, v2=True),
            S("b-def-p4-v2", "rdb", batch=0, parallel=4, numcpu=16, v2=True)]


def world_text(rng):
    w = semgen.gen_world(rng, nrec=rng.choice([5, 25, 60]), default_routes=rng.random() < 0.3)
    s = semlib.Script()
    s.file(w.lines, rng)
    return s.rows[0]["text"]


def hot_text(rng):
    """hundreds of values under a few keys, repeated lines, located variants: batches race on one key"""
    out = [".hot.test,,a.ns.hot.test"]
    for h in range(rng.randrange(1, 4)):
        name = "h%d.hot.test" % h
        for i in range(rng.choice([60, 150, 300])):
            out.append("+%s,10.%d.%d.%d,%d" % (name, h, i // 250, i % 250 + 1, rng.choice([0, 60, 300])))
        for i in range(rng.randrange(0, 6)):
            out.append("+%s,10.9.9.9,60" % name)                              # the same line several times
        for i in range(rng.randrange(0, 30)):
            out.append("+%s,10.%d.200.%d,60,,\\001\\00%d" % (name, h, i + 1, rng.randrange(1, 4)))
        out.append("'%s,%s" % (name, "x" * rng.choice([1, 300, 5000])))
    for i in range(rng.randrange(0, 40)):
        out.append("+f%d.hot.test,10.100.0.%d" % (i, i + 1))
    out.append("%\\001\\001,10.0.0.0/8,\\155\\061")
    out.append("%\\001\\002,10.1.0.0/16,\\155\\061")
    rng.shuffle(out)
    return "\n".join(out) + "\n"


def big_text(rng):
    """> 70000 records; runs of equal keys sit on the builder's bucket boundaries (minBucketSize = 30000)"""
    out = [".big.test,,a.ns.big.test"]
    n = 75000
    runs = {14990: 40, 29930: 100, 59900: 150}        # offsets in sorted order: 29930+40+c .. +100 covers 30000; the next boundary falls in the third run
    for i in range(n):
        out.append("+n%05d.big.test,10.%d.%d.%d,60" % (i, i >> 16, (i >> 8) & 255, i & 255))
        for j in range(runs.get(i, 0)):
            out.append("+n%05d.big.test,172.16.%d.%d,60" % (i, j // 250, j % 250 + 1))
    rng.shuffle(out)
    return "\n".join(out) + "\n"


BAD_LINES = ["+bad.z,not-an-ip,60", "?what.z,1.2.3.4", "Zbad.z", "%\\001\\001,10.0.0.0/40,\\155\\061", "+bad.z,1.2.3.4,notanumber",
             "Hbad.z,.,60,,1,alpn", "@bad.z,,mx.bad.z,70000000000"]


def run():
    rep = Report("C07", "model_checking")
    thorough = tier() == "thorough"
    rng = random.Random(seed() * 9001 + 7)
    vlib.build_harness()
    states = trans = 0
    cfgs = [(4, "CodecGood", 2, "batch", 1, 2), (4, "CodecGood", 2, "batch", 2, 2), (3, "CodecBad", 2, "batch", 1, 2), (5, "CodecRuns", 2, "builder", 1, 1),
            (4, "CodecGood", 2, "cdb", 1, 1), (5, "CodecRuns", 2, "batch", 1, 2)]
    if thorough:
        cfgs += [(4, "CodecGood", 3, "batch", 1, 3), (5, "CodecRuns", 3, "batch", 2, 3), (5, "CodecRuns", 3, "builder", 1, 1), (3, "CodecBad", 3, "builder", 1, 1)]
    with Scratch() as sc:
        for i, (nl, codec, w, sink, bs, p) in enumerate(cfgs):
            for minb, maxb in ([(2, 3)] if sink != "builder" else [(1, 2), (2, 3), (2, 2), (1, 5)]):
                name = "c%d-%d-%d.cfg" % (i, minb, maxb)
                sc.write(name, "SPECIFICATION Spec\nCONSTANTS NLines = %d Codec <- %s W = %d Sink = \"%s\" BatchSize = %d P = %d UseMutex = TRUE MinBucket = %d MaxBuckets = %d "
                         "KeepKeysTogether = TRUE\nINVARIANTS Lossless FailsIffBadLine\nPROPERTY Terminates\n" % (nl, codec, w, sink, bs, p, minb, maxb))
                r = tlc(sc, "CompileMC", name, workers=8, timeout=1500)
                states += r["distinct"]
                trans += r["generated"]
    log("[C07] Compile.tla: %d configurations, %d distinct states: lossless, fails iff a line is rejected, terminates" % (len(cfgs), states))
    rows = []
    nid = 0

    def add(text, settings, detail, tag):
        nonlocal nid
        nid += 1
        rows.append({"ev": "compile", "id": nid, "text": text, "serial": SERIAL, "settings": settings, "detail": detail, "tag": tag, "allowfail": tag == "overlong-line"})

    for i in range(40 if thorough else 8):
        add(world_text(rng), GRID_SMALL + (GRID_BUILDER if i % 4 == 0 else []), True, "small")
    for i in range(12 if thorough else 3):
        for rep_ in range(3 if thorough else 2):          # the same file again: schedules differ
            add(hot_text(random.Random(rng.random())), GRID_HOT + (GRID_BUILDER[:1] if rep_ == 0 and i == 0 else []), False, "hot")
    for i in range(3 if thorough else 1):
        add(big_text(rng), GRID_BIG, False, "big")
    for i in range(12 if thorough else 4):
        t = world_text(rng).split("\n")
        t.insert(rng.randrange(len(t)), rng.choice(BAD_LINES))
        add("\n".join(t), GRID_SMALL[:4] + GRID_BUILDER[:1], False, "rejected-line")
    # a line longer than the scanner's 64 KiB token limit (the codec would accept it): the compilation may refuse the
    # file, but it must not succeed with a database that silently lacks what follows the line
    for i in range(4 if thorough else 2):
        t = world_text(rng).split("\n")
        t.insert(len(t) // 2, "'long%d.z,%s" % (i, "x" * rng.choice([65536, 70000, 200000])))
        add("\n".join(t), GRID_SMALL[:4] + GRID_BUILDER[:1], False, "overlong-line")
    os.makedirs(vlib.OUT, exist_ok=True)
    inp, trace = os.path.join(vlib.OUT, "c07-in.ndjson"), os.path.join(vlib.OUT, "c07-trace.ndjson")
    vlib.write_ndjson(inp, rows)
    vlib.run_vh(["store", "-in", inp, "-out", trace], timeout=3400)
    res = tv("StoreTrace", trace, timeout=3000)
    out = [json.loads(x) for x in open(trace)]
    log("[C07] %d files, %d compilations, trace validated in %.0fs, %d rejected" % (len(rows), len(out), res["wall"], len(res["rejects"])))
    texts = {r["id"]: r["text"] for r in rows}
    for rej in res["rejects"]:
        e = out[rej[0] - 1]
        o = e["opts"]
        mode = "cdb" if o["kind"] == "cdb" else ("builder" if o["builder"] else "batches")
        sig = "%s|%s|%s" % (rej[1], mode, e["tag"])
        t = texts[e["id"]]
        rep.violation(sig, "%s: setting %s on a %s file: err=%r referr=%r ref=%d pairs / got=%d pairs, missing %s extra %s"
                      % (rej[1], e["setting"], e["tag"], e["err"][:200], e["referr"][:200], e["refn"], e["gotn"], e["missing"][:3], e["extra"][:3]),
                      {"setting": o, "data_file": t if len(t) < 20000 else t[:20000] + "\n...(%d bytes)" % len(t), "event": {k: v for k, v in e.items() if k not in ("ref", "got")}})
    st = selftest(out)
    rep.cov = {"states": states, "transitions": trans, "traces_validated_against_impl": len(out),
               "samples": [{k: (v if k not in ("ref", "got") else "(%d keys)" % len(v)) for k, v in e.items()} for e in out[:2]],
               "evaluations": len(out), "distinct_nontrivial": len({(e["id"], e["setting"]) for e in out if e["refn"] > 20 or e["referr"]}),
               "rule": "one evaluation = one real compilation of one file under one setting, dumped completely and compared with the sequential codec; "
                       "non-trivial = distinct (file, setting) with more than 20 records or a rejected line",
               "records_compared": sum(e["refn"] for e in out), "selftest_corruption_rejected": st}
    rep.assumptions = ["TLC, the TLA+ Json module", "the sequential codec (Codec.ConvertLn per line + Acc.MarshalMap + Features.MarshalMap) is the reference the property names",
                       "goroutine schedules of the real compilers are whatever the runtime produces (hot-key files with batch size 1..7 make batches overlap)"]
    if st is False:
        raise vlib.Infra("binding self-test failed: a dump with a dropped value was accepted")
    return rep.finish()


def selftest(out):
    import copy
    for e in out:
        if e["ev"] == "compile" and e.get("full") and e["refn"] > 3 and not e["err"]:
            c = copy.deepcopy(e)
            k = sorted(c["got"])[0]
            c["got"][k] = c["got"][k][:-1]
            if not c["got"][k]:
                del c["got"][k]
            path = os.path.join(vlib.OUT, "selftest-c07.ndjson")
            vlib.write_ndjson(path, [c])
            r = tv("StoreTrace", path)
            return any(x[0] == 1 for x in r["rejects"])
    return None


def replay(path):
    d = json.load(open(path))
    print(json.dumps(d, indent=1)[:6000])
    return 0
