"""C18 - SVCB / HTTPS parameters compile to conformant, faithful wire data.

Spec  : Svcb.tla - 25 candidate parameters over the seven keys (single / multiple values, boundary ports 0 / 443 / 65535,
        IPv4-mapped ipv6hint, malformed variants: port 65536 / -1 / text, short address, colon-less ipv6hint, bad base64,
        mandatory naming itself / a repeated key / an unknown key), Accept (unique keys, mandatory names present keys)
        and Wire (strictly increasing keys, RFC 9460 value forms).  TLC enumerates every list of <= MaxLen candidates in
        every order.
Run   : real svcb.ParamList FromText / ToWire / ToText -> FromText -> ToWire, and miekg/dns unpacking a full HTTPS
        record around the wire data (the independent decoder the property names).
Judge : SvcbTrace.tla - accepted iff Accept; wire = Wire; printed text parses back to the same wire; the independent
        decoder recovers exactly the declared keys and values.
"""
import json
import os
import random

import vlib
from vlib import Scratch, tlc, tv, Report, log, tier, seed

TEXT = {1: "alpn=h2", 2: "alpn=h2|h3", 3: "no-default-alpn=", 4: "no-default-alpn=x", 5: "port=0", 6: "port=443", 7: "port=65535", 8: "port=65536",
        9: "port=-1", 10: "port=https", 11: "ipv4hint=1.2.3.4", 12: "ipv4hint=1.2.3.4|255.255.255.255", 13: "ipv4hint=1.2.3", 14: "echconfig=AQID",
        15: "echconfig=!!!", 16: "ipv6hint=2001:db8::1", 17: "ipv6hint=2001:db8::1|::ffff:1.2.3.4", 18: "ipv6hint=1.2.3.4", 19: "mandatory=alpn",
        20: "mandatory=alpn|port", 21: "mandatory=port|alpn", 22: "mandatory=ipv4hint", 23: "mandatory=mandatory", 24: "mandatory=alpn|alpn", 25: "mandatory=bogus", 26: "mandatory=port|ipv4hint", 27: "mandatory=ipv6hint|echconfig|no-default-alpn", 28: "alpn=h3", 29: "alpn=http/1.1|h2"}
NC = len(TEXT)
# which valid candidates provide each key (for the directed lists: a mandatory parameter together with the keys it names)
BY_KEY = {1: [1, 2, 28, 29], 2: [3], 3: [5, 6, 7], 4: [11, 12], 5: [14], 6: [16, 17]}
MAND = {19: [1], 20: [1, 3], 21: [3, 1], 22: [4], 26: [3, 4], 27: [6, 5, 2]}


def render(ids, rng):
    parts = []
    for i in ids:
        t = TEXT[i]
        k, v = t.split("=", 1)
        if v and rng.random() < 0.3:
            t = '%s="%s"' % (k, v)
        parts.append(t)
    s = ";".join(parts)
    if parts and rng.random() < 0.2:
        s += ";"
    return s


def run():
    rep = Report("C18", "exploration")
    thorough = tier() == "thorough"
    rng = random.Random(seed() * 1801 + 18)
    vlib.build_harness()
    with Scratch() as sc:
        sc.write("g.cfg", "SPECIFICATION Spec\nCONSTANTS MaxLen = %d EmitJson = TRUE\nINVARIANTS WireSorted Emit\nCHECK_DEADLOCK FALSE\n" % (3 if thorough else 2))
        g = tlc(sc, "Svcb", "g.cfg", workers=8, timeout=3000)
    lists = [json.loads(json.loads(l)) for l in g["out"].splitlines() if l.startswith('"[')]
    log("[C18] Svcb.tla: %d parameter lists enumerated (%.0fs)" % (len(lists), g["wall"]))
    extra = 4000 if not thorough else 30000
    for _ in range(extra):
        n = 3 if not thorough else 4
        lists.append([rng.randrange(1, NC + 1) for _ in range(n)])
    # directed: every mandatory candidate with the parameters it names present, in every rotation
    for m, keys in MAND.items():
        for _ in range(6 if not thorough else 40):
            l = [m] + [rng.choice(BY_KEY[k]) for k in keys]
            rng.shuffle(l)
            lists.append(l)
    rows = [{"ids": l, "text": render(l, rng)} for l in lists]
    os.makedirs(vlib.OUT, exist_ok=True)
    inp, trace = os.path.join(vlib.OUT, "c18-in.ndjson"), os.path.join(vlib.OUT, "c18-trace.ndjson")
    vlib.write_ndjson(inp, rows)
    vlib.run_vh(["svcb", "-in", inp, "-out", trace, "-deferred", "64"], timeout=3000)
    res = tv("SvcbTrace", trace, timeout=3000)
    out = [json.loads(x) for x in open(trace)]
    log("[C18] %d lists through the real codec and miekg/dns, validated in %.0fs, %d rejected" % (len(out), res["wall"], len(res["rejects"])))
    for rej in res["rejects"]:
        e = out[rej[0] - 1]
        keys = sorted({TEXT[i].split("=")[0] for i in e["ids"]})
        # signature: the clause and the candidate texts that matter (the offending parameter kinds)
        culprit = "+".join(sorted({TEXT[i] for i in e["ids"] if i in (8, 9, 10, 13, 15, 17, 18, 23, 24, 25, 4)})) or "+".join(keys)
        sig = "%s|%s" % (rej[1], culprit)
        rep.violation(sig, "%s: %r accepted=%s err=%r wire=%s retext=%r reerr=%r decerr=%r" % (rej[1], e["text"], e["accepted"], e["err"], bytes(e["wire"]).hex(), e["retext"], e["reerr"], e["decerr"]),
                      {"event": e})
    st = selftest(out)
    acc = [e for e in out if e["accepted"]]
    rep.cov = {"evaluations": len(out), "distinct_nontrivial": len({json.dumps(e["ids"]) for e in acc if len(e["ids"]) >= 2}),
               "rule": "every list of <= %d of the 29 candidate parameters in every order (TLC-enumerated) + seeded random longer lists, rendered with optional quotes / "
                       "trailing ';'; non-trivial = distinct accepted lists with at least two parameters" % (3 if thorough else 2),
               "samples": [{k: e[k] for k in ("ids", "text", "accepted", "wire", "retext")} for e in acc[5:8]], "accepted": len(acc), "rejected_lists": len(out) - len(acc),
               "spec_states": g["distinct"], "exhaustive": True, "selftest_corruption_rejected": st}
    rep.assumptions = ["TLC, the TLA+ Json module", "miekg/dns as the independent SVCB decoder", "candidate texts (c18.py TEXT) and their abstract description (Svcb.tla Cand) agree"]
    if st is False:
        raise vlib.Infra("binding self-test failed")
    return rep.finish()


def selftest(out):
    import copy
    for e in out:
        if e["accepted"] and len(e["wire"]) > 8 and not e["reerr"]:
            c = copy.deepcopy(e)
            c["wire"][-1] ^= 1
            path = os.path.join(vlib.OUT, "selftest-c18.ndjson")
            vlib.write_ndjson(path, [c])
            r = tv("SvcbTrace", path)
            return any(x[0] == 1 for x in r["rejects"])
    return None


def replay(path):
    d = json.load(open(path))
    print(json.dumps(d, indent=1)[:6000])
    return 0
