#!/usr/bin/env python3
"""Serving-semantics family (C01 C02 C03 C04 C10 C11): abstract data files, their text rendering, queries,
random world generation, and the plumbing around `vh sem` + ResolveTrace.tla.

Nothing here judges a response: the abstract lines and queries are handed to TLC (Resolve.tla) together
with what the real servers answered.  This module only (a) invents inputs and (b) writes them twice: as
data-file text for the real compilers and as abstract JSON for the specification.  A rendering mistake
therefore shows up as a disagreement (and is caught when the checks are run on the unchanged tree)."""
import ipaddress
import json
import os
import random

import vlib

# ----------------------------------------------------------------------------- names / bytes

def lab(s):
    return [ord(c) for c in s]


def name(*labels):
    """abstract name from label strings: name('www','z') ; name() = root"""
    return [lab(x) for x in labels]


def nm(s):
    """'a.b.z' -> abstract name"""
    s = s.rstrip(".")
    return [lab(x) for x in s.split(".")] if s else []


def txt(n):
    """abstract name -> 'a.b.z'"""
    return ".".join("".join(chr(c) for c in l) for l in n)


def dtext(n):
    """abstract name -> data-file text: bytes outside [A-Za-z0-9_-] are written as octal escapes"""
    out = []
    for l in n:
        out.append("".join(chr(c) if (48 <= c <= 57 or 65 <= c <= 90 or 97 <= c <= 122 or c in (45, 95, 33, 42)) else "\\%03o" % c for c in l))
    return ".".join(out)


def fq(n):
    return txt(n) + "."


def ip16(s):
    a = ipaddress.ip_address(s)
    if a.version == 4:
        return 4, [0] * 10 + [255, 255] + list(a.packed)
    return 6, list(a.packed)


def octal(bs):
    return "".join("\\%03o" % b for b in bs)


def loctext(loc):
    return "" if loc == 0 else octal([loc >> 8, loc & 255])


def maptext(m):
    return octal([m >> 8, m & 255])


# ----------------------------------------------------------------------------- abstract lines

def L(t, dom, wild=False, loc=0, ttl=-1, ip=None, x=None, xshort=False, y=None, num=None, rd=None, mapid=0, netlen=0):
    ipf, ipb = (0, []) if ip is None else ip16(ip)
    return {"t": t, "dom": dom, "wild": wild, "loc": loc, "ttl": ttl, "ipf": ipf, "ipb": ipb, "x": x or [], "xshort": xshort,
            "y": y or [], "num": num or [-1], "rd": rd or [], "map": mapid, "netlen": netlen, "_ip": ip}


def _n(v):
    return "" if v is None or v < 0 else str(v)


def _bytes_text(bs, raw=""):
    """render raw bytes for a data-file field: printable ones verbatim, the rest (and separators) in octal;
    `raw`: the separator character that is NOT in use on this line may appear unescaped"""
    out = []
    for b in bs:
        if chr(b) in raw:
            out.append(chr(b))
        elif 33 <= b <= 126 and chr(b) not in ",:\\":
            out.append(chr(b))
        elif b == 32:
            out.append(" ")
        else:
            out.append("\\%03o" % b)
    return "".join(out)


def render(l, rng=None, sep=","):
    """abstract line -> data file text.  sep ':' only when no field contains one (IPv6, escapes are fine)."""
    t = l["t"]
    d = ("*." if l["wild"] else "") + (dtext(l["dom"]) or ".")
    lo = loctext(l["loc"])
    ttl = _n(l["ttl"])
    ip = l["_ip"] or ""
    x = (dtext(l["x"]) if l["x"] else "")
    num = l["num"]
    if t == "Z":
        f = [d, x, dtext(l["y"])] + [_n(v) for v in num[:5]] + [ttl, "", lo]
    elif t in ".&":
        f = [d, ip, x, ttl, "", lo]
    elif t == "+":
        f = [d, ip, ttl, "", lo, l.get("_numtext", _n(num[0]))]
    elif t == "=":
        f = [d, ip, ttl, "", lo]
    elif t == "@":
        f = [d, ip, x, _n(num[0]), ttl, "", lo]
    elif t == "S":
        f = [d, ip, x, _n(num[0]), _n(num[1]), _n(num[2]), ttl, "", lo]
    elif t in "C^":
        f = [d, x, ttl, "", lo]
    elif t == "'":
        # the other separator character may stand unescaped in the text ("'a.z:v=spf1 a, mx:300")
        raw = ""
        if rng is not None and rng.random() < 0.7:
            raw = "," if sep == ":" else ":"
        f = [d, _bytes_text(l["rd"], raw), ttl, "", lo]
    elif t == ":":
        f = [d, str(num[0]), octal(l["rd"]), ttl, "", lo]
    elif t in "HB":
        f = [d, x or ".", ttl, lo, _n(num[0]), l["_params"]]
    elif t in "M8":
        f = [d, maptext(l["map"])]
    elif t == "%":
        f = [lo if l["loc"] else octal([0, 0]), l["_net"], maptext(l["map"])]
        if l["map"] == 0 and (rng is None or rng.random() < 0.7):
            f = f[:2]                   # the default map: no map id field at all
    else:
        raise ValueError(t)
    # optionally drop trailing empty fields (the format allows it)
    if rng is not None and rng.random() < 0.5 and t not in "HB%M8":
        while len(f) > 2 and f[-1] == "":
            f.pop()
    if sep == ":" and any(":" in x for x in f):
        if t == "'" and not any(":" in x for x in f[:1] + f[2:]):
            f[1] = _bytes_text(l["rd"])            # the colon came from the raw text: escape it again
        else:
            sep = ","
    if sep == "," and t == "'" and "," in f[1]:
        f[1] = _bytes_text(l["rd"])
    return t + sep.join(f)


def strip(l):
    """abstract line as handed to TLC (private rendering helpers removed)"""
    return {k: v for k, v in l.items() if not k.startswith("_")}


SVCB_PARAMS = [("", []), ("alpn=h2", [0, 1, 0, 3, 2, 0x68, 0x32]), ("port=8443", [0, 3, 0, 2, 0x20, 0xFB])]


def svcb(t, dom, tgt, ttl, prio, pidx, wild=False, loc=0):
    ptxt, pwire = SVCB_PARAMS[pidx]
    l = L(t, dom, wild=wild, loc=loc, ttl=ttl, x=tgt, num=[prio], rd=pwire)
    l["_params"] = ptxt
    return l


def net(loc, cidr, mapid):
    n = ipaddress.ip_network(cidr, strict=True)
    f, b = ip16(str(n.network_address))
    l = L("%", [], loc=loc, mapid=mapid, netlen=n.prefixlen + (96 if f == 4 else 0))
    l["ipf"], l["ipb"] = f, b
    l["_net"] = str(n)
    return l


# ----------------------------------------------------------------------------- queries

def client(ipstr):
    f, b = ip16(ipstr)
    return {"f": f, "b": b, "len": 128}


def ecs_of(cidr_or_tuple):
    """('10.1.2.3', 20) -> abstract ECS (address may carry host bits)"""
    a, plen = cidr_or_tuple
    f, b = ip16(a)
    n = plen + (96 if f == 4 else 0)
    v = int.from_bytes(bytes(b), "big")
    v &= ~((1 << (128 - n)) - 1)                       # the subnet: bits beyond the source prefix do not belong to it
    return {"present": True, "f": f, "b": list(v.to_bytes(16, "big")), "len": n}


NOECS = {"present": False, "f": 0, "b": [], "len": 0}


def query(qname, qtype, rip, ecs=None, edns=None, maxans=1, exact=False, cmp=False, qclass=1, upper=False, rawecs=False):
    """returns (abstract q, concrete fields for the driver)"""
    e = ecs_of(ecs) if ecs else dict(NOECS)
    ed = bool(ecs) or bool(edns)
    q = {"name": qname, "type": qtype, "class": qclass, "rip": client(rip), "edns": ed, "ecs": e, "maxans": maxans,
         "exact": exact, "cmp": cmp}
    # presentation format for the driver: bytes that are not plain ASCII name characters as \DDD
    def _lab(l):
        out = []
        for b in l:
            ch = chr(b)
            if upper and "a" <= ch <= "z":
                ch = ch.upper()
            out.append(ch if (48 <= b <= 57 or 65 <= b <= 90 or 97 <= b <= 122 or b in (45, 95, 33, 42)) else "\\%03d" % b)
        return "".join(out)
    text = (".".join(_lab(l) for l in qname) + ".") if qname else "."
    c = {"name": text, "type": qtype, "class": qclass, "rip": rip, "edns": ed, "maxans": maxans}
    if ecs:
        c["ecs"] = {"f": 1 if e["f"] == 4 else 2, "len": ecs[1], "addr": ecs[0], "scope": 0}
        if rawecs:
            # address bytes as they go on the wire: truncated to the source length, host bits of the last byte kept
            full = ip16(ecs[0])[1]
            fam_bytes = full[12:] if e["f"] == 4 else full
            c["ecs"]["raw"] = fam_bytes[:(ecs[1] + 7) // 8]
    return q, c


class Script:
    """builds the input of `vh sem`"""

    def __init__(self):
        self.rows = []
        self.nfile = 0
        self.nq = 0
        self.files = {}

    def file(self, lines, rng=None, serial=1700000000, opts=None, keep=False, tag="", sepmix=True, clause=""):
        self.nfile += 1
        text = []
        for l in lines:
            sep = ":" if (rng is not None and sepmix and rng.random() < (0.5 if l["t"] == "'" else 0.3)) else ","
            text.append(render(l, rng, sep))
        body = "\n".join(text) + "\n"
        self.rows.append({"ev": "file", "id": self.nfile, "text": body, "serial": serial, "lines": [strip(l) for l in lines],
                          "opts": opts, "keep": keep, "tag": tag, "clause": clause})
        self.files[self.nfile] = body
        return self.nfile

    def q(self, q, c, qid=None, tag="", reps=1):
        self.nq += 1
        row = dict(c)
        row.update({"ev": "q", "file": self.nfile, "qid": qid if qid is not None else self.nq, "q": q, "tag": tag, "reps": reps})
        self.rows.append(row)

    def freq(self, q, c, n, tag="freq"):
        self.nq += 1
        row = dict(c)
        row.update({"ev": "freq", "file": self.nfile, "qid": self.nq, "q": q, "tag": tag, "reps": n})
        self.rows.append(row)

    def rp(self, nets, clients, tag=""):
        """nets: [(loc, cidr)], clients: [(addr text, prefix length in the address family)] - the real Rearranger's table for
        this subnet set is judged against LPM for every client"""
        self.nq += 1
        an, cn = [], []
        for lo, c in nets:
            l = net(lo, c, 0)
            an.append({"f": l["ipf"], "b": l["ipb"], "len": l["netlen"], "loc": lo})
        for a, plen in clients:
            e = ecs_of((a, plen))
            cn.append({"f": e["f"], "b": e["b"], "len": e["len"]})
        self.rows.append({"ev": "rp", "qid": self.nq, "tag": tag, "nets": an, "netsc": [{"cidr": c, "loc": lo} for lo, c in nets], "clients": cn})

    def loc(self, kind, qname, rip=None, ecs=None, tag=""):
        self.nq += 1
        if ecs:
            e = ecs_of(ecs)
            cl = {"f": e["f"], "b": e["b"], "len": e["len"]}
            c = {"ecs": {"f": 1 if e["f"] == 4 else 2, "len": ecs[1], "addr": ecs[0], "scope": 0}, "rip": "127.0.0.1"}
        else:
            cl = client(rip)
            c = {"rip": rip}
        c.update({"ev": "loc", "file": self.nfile, "qid": self.nq, "name": fq(qname) if qname else ".",
                  "q": {"kind": kind, "name": qname, "c": cl}, "tag": tag})
        self.rows.append(c)

    def write(self, path):
        vlib.write_ndjson(path, self.rows)


def run_sem(script, label, backends="cdb,cdbsep,v1,v2", env=None, timeout=3000, race=False, extra=()):
    """run the driver on the script; returns (trace path, info dict)"""
    os.makedirs(vlib.OUT, exist_ok=True)
    inp = os.path.join(vlib.OUT, "%s-in.ndjson" % label)
    out = os.path.join(vlib.OUT, "%s-trace.ndjson" % label)
    script.write(inp)
    p = vlib.run_vh(["sem", "-in", inp, "-out", out, "-backends", backends] + list(extra), env=env, timeout=timeout, race=race)
    info = json.loads(p.stdout.strip().splitlines()[-1])
    return out, info


# ----------------------------------------------------------------------------- readable reports

def show_rr(r):
    rd = r["rd"]
    return "%s %d ttl=%d rd=%s" % (txt(r["n"]) or ".", r["t"], r["ttl"], bytes(b & 255 for b in rd).hex() if len(rd) > 24 else str(rd))


def show_resp(r):
    if not r.get("written"):
        return "NO RESPONSE (rc=%s err=%s panic=%s)" % (r.get("rcode"), r.get("err"), r.get("panic"))
    s = "rcode=%d aa=%s an=[%s] ns=[%s] ex=[%s]" % (r["rcode"], r["aa"], "; ".join(map(show_rr, r["an"])), "; ".join(map(show_rr, r["ns"])),
                                                       "; ".join(map(show_rr, r["ex"])))
    if r.get("opt"):
        s += " opt"
        if r.get("hasecs"):
            s += " ecs(f=%d len=%d scope=%d)" % (r["ecs"]["f"], r["ecs"]["len"], r["ecs"]["scope"])
    return s


def show_q(q):
    s = "%s type=%d from %s" % (txt(q["name"]) or ".", q["type"], _ip_text(q["rip"]))
    if q["ecs"]["present"]:
        s += " ecs=%s/%d" % (_ip_text(q["ecs"]), q["ecs"]["len"] - (96 if q["ecs"]["f"] == 4 else 0))
    elif q["edns"]:
        s += " edns"
    if q.get("maxans", 1) != 1:
        s += " maxans=%d" % q["maxans"]
    return s


def _ip_text(c):
    b = bytes(c["b"])
    if c["f"] == 4:
        return str(ipaddress.ip_address(b[12:]))
    return str(ipaddress.ip_address(b))


def context_of(trace_rows, line_no, script):
    """the file text and the rejected line, for the replay file; `rerun` holds the script rows (file + event, and for a
    paired comparison the first file and its event) with which `replay_rows` re-executes the case"""
    e = trace_rows[line_no - 1]
    fid = e.get("file")
    if e["ev"] == "file":
        fid = e["id"]
    rerun = []
    frow = next((r for r in script.rows if r["ev"] == "file" and r["id"] == fid), None)
    if frow is not None and frow.get("keep"):
        # paired comparison: the memo comes from the preceding file that does not keep
        idx = script.rows.index(frow)
        j = idx - 1
        while j >= 0 and not (script.rows[j]["ev"] == "file" and not script.rows[j].get("keep")):
            j -= 1
        if j >= 0:
            rerun.append(script.rows[j])
            rerun += [r for r in script.rows[j + 1:idx] if r["ev"] != "file" and r.get("qid") == e.get("qid")][:1]
    if frow is not None:
        rerun.append(frow)
        if e["ev"] != "file":
            idx = script.rows.index(frow)
            rerun += [r for r in script.rows[idx + 1:] if r["ev"] == e["ev"] and r.get("qid") == e.get("qid") and r.get("file") == fid][:1]
    return {"data_file": script.files.get(fid, ""), "event": e, "rerun": rerun}


def replay_rows(replay_path, backends="cdb,cdbsep,v1,v2"):
    """re-execute the case of a replay file on the current /repo and let TLC judge it again; returns the rejects"""
    d = json.load(open(replay_path))
    rows = d["replay"].get("rerun") or []
    if not rows:
        print("this replay file carries no re-executable rows")
        return None
    os.makedirs(vlib.OUT, exist_ok=True)
    inp = os.path.join(vlib.OUT, "replay-in.ndjson")
    out = os.path.join(vlib.OUT, "replay-trace.ndjson")
    vlib.write_ndjson(inp, rows)
    vlib.build_harness()
    vlib.run_vh(["sem", "-in", inp, "-out", out, "-backends", backends])
    res = vlib.tv("ResolveTrace", out)
    trows = [json.loads(x) for x in open(out)]
    for rej in res["rejects"]:
        e = trows[rej[0] - 1]
        print("REJECTED again:", rej[1:], show_q(e["q"]) if e["ev"] == "q" else json.dumps(e.get("q")))
        if e["ev"] == "q" and rej[1] in e["r"]:
            print("   ", show_resp(e["r"][rej[1]]))
    return res["rejects"]
