#!/usr/bin/env python3
"""Shared plumbing for the /verif checks: TLC runner, trace validation, harness build,
evidence writer, known-finding classification.

Exit-code contract of every check (see DESIGN.md section 1):
  0  property held on everything explored (KNOWN-FINDING lines allowed)
  1  a violation that KNOWN_FINDINGS.json does not list: "VIOLATION property=<id> replay=<path>"
  2  infrastructure problem (build failure, TLC error, timeout, dead driver) - never a verdict
"""
import json
import os
import re
import shutil
import subprocess
import sys
import tempfile
import time

VERIF = os.path.dirname(os.path.dirname(os.path.abspath(__file__)))
SPEC = os.path.join(VERIF, "spec")
HARNESS = os.path.join(VERIF, "harness")
OUT = os.path.join(VERIF, "out")
EVID = os.path.join(VERIF, "evidence")
REPO = os.environ.get("VERIF_REPO", "/repo")      # registered checks always use /repo; a background sweep may point at a snapshot

GOENV = dict(os.environ, GOFLAGS="-mod=mod", GOPROXY="off", GOSUMDB="off", GOTOOLCHAIN="local",
             CGO_ENABLED="1")


class Infra(Exception):
    """Raised for anything that is not a verdict (exit 2)."""


def tier():
    return os.environ.get("VERIF_TIER", "quick")


def seed():
    try:
        return int(os.environ.get("VERIF_SEED", "1"))
    except ValueError:
        return 1


def log(*a):
    print(*a, file=sys.stderr, flush=True)


# ----------------------------------------------------------------------------- harness build

def build_harness(race=False):
    """(Re)build the Go harness against /repo's current working tree with the verif tag on."""
    os.makedirs(os.path.join(HARNESS, "bin"), exist_ok=True)
    gosum_src = os.path.join(REPO, "dnsrocks", "go.sum")
    gosum_dst = os.path.join(HARNESS, "go.sum")
    if not os.path.exists(gosum_dst):
        shutil.copy(gosum_src, gosum_dst)
    out = os.path.join(HARNESS, "bin", "vh-race" if race else "vh")
    cmd = ["go", "build", "-tags", "verif", "-ldflags=-checklinkname=0"]
    if race:
        cmd.append("-race")
    cmd += ["-o", out, "./cmd/vh"]
    t0 = time.time()
    p = subprocess.run(cmd, cwd=HARNESS, env=GOENV, stdout=subprocess.PIPE, stderr=subprocess.STDOUT, text=True)
    if p.returncode != 0:
        raise Infra("harness build failed:\n" + p.stdout[-4000:])
    log("[build] %s in %.1fs" % (os.path.basename(out), time.time() - t0))
    return out


def run_vh(args, race=False, timeout=3600, env=None, stdin=None, check=True):
    """Run the harness binary; returns CompletedProcess (stdout captured as text)."""
    exe = os.path.join(HARNESS, "bin", "vh-race" if race else "vh")
    e = dict(GOENV)
    e.setdefault("VERIF_SEED", str(seed()))
    e.setdefault("VERIF_TIER", tier())
    if env:
        e.update(env)
    try:
        p = subprocess.run([exe] + list(args), env=e, input=stdin, stdout=subprocess.PIPE, stderr=subprocess.PIPE,
                           text=True, timeout=timeout)
    except subprocess.TimeoutExpired:
        raise Infra("harness timed out: vh " + " ".join(args))
    if check and p.returncode != 0 and not (race and p.returncode == 66):      # 66: the race detector reported something
        raise Infra("harness failed (rc=%d): vh %s\n%s" % (p.returncode, " ".join(args), p.stderr[-4000:]))
    return p


# ----------------------------------------------------------------------------- TLC

class Scratch:
    """Scratch copy of spec/ so TLC's litter (states/, *_TTrace_*) never lands in /verif."""

    def __init__(self):
        self.dir = None

    def __enter__(self):
        self.dir = tempfile.mkdtemp(prefix="verif-tlc-")
        for f in os.listdir(SPEC):
            if f.endswith((".tla", ".cfg")):
                shutil.copy(os.path.join(SPEC, f), self.dir)
        return self

    def __exit__(self, *a):
        shutil.rmtree(self.dir, ignore_errors=True)

    def write(self, name, text):
        with open(os.path.join(self.dir, name), "w") as f:
            f.write(text)

    def path(self, name):
        return os.path.join(self.dir, name)


_RE_STATES = re.compile(r"(\d+) states generated, (\d+) distinct states found")
_RE_DEPTH = re.compile(r"depth of the complete state graph search is (\d+)")
_RE_PRINT = re.compile(r"^<<(.*)>>$")


def _parse_tuple(s):
    """Parse a TLC-printed flat tuple of strings / ints / booleans: "REJECT", 12, TRUE."""
    out = []
    for m in re.finditer(r'"((?:[^"\\]|\\.)*)"|(-?\d+)|(TRUE|FALSE)', s):
        if m.group(1) is not None:
            out.append(m.group(1))
        elif m.group(2) is not None:
            out.append(int(m.group(2)))
        else:
            out.append(m.group(3) == "TRUE")
    return out


def tlc(sc, module, cfg=None, workers=16, timeout=1200, extra=(), java_opts=None, allow_violation=False):
    """Run TLC on <module>.tla with <cfg> (file name in scratch dir). Returns a result dict.

    result: rc, out, generated, distinct, depth, prints (list of parsed PrintT tuples),
            violated (name of violated invariant/property or None), error (bool: TLC evaluation error)
    """
    cfg = cfg or (module + ".cfg")
    meta = tempfile.mkdtemp(prefix="meta-", dir=sc.dir)
    cmd = ["timeout", str(timeout), "tlc", "-workers", str(workers), "-metadir", meta, "-config", cfg] + list(extra) + [module + ".tla"]
    env = dict(os.environ)
    if java_opts:
        env["JAVA_TOOL_OPTIONS"] = java_opts
    t0 = time.time()
    p = subprocess.run(cmd, cwd=sc.dir, env=env, stdout=subprocess.PIPE, stderr=subprocess.STDOUT, text=True)
    out = p.stdout
    res = {"rc": p.returncode, "out": out, "generated": 0, "distinct": 0, "depth": 0, "prints": [], "violated": None,
           "error": False, "wall": time.time() - t0, "cmd": " ".join(cmd[2:])}
    for m in _RE_STATES.finditer(out):
        res["generated"], res["distinct"] = int(m.group(1)), int(m.group(2))
    m = _RE_DEPTH.search(out)
    if m:
        res["depth"] = int(m.group(1))
    for line in out.splitlines():
        m = _RE_PRINT.match(line.strip())
        if m:
            res["prints"].append(_parse_tuple(m.group(1)))
    m = re.search(r"Error: Invariant (\S+) is violated", out)
    if m:
        res["violated"] = m.group(1)
    m2 = re.search(r"Error: Action property (\S+) is violated|Error: Temporal properties were violated", out)
    if m2 and not res["violated"]:
        res["violated"] = m2.group(1) or "temporal"
    if "Error: Deadlock reached" in out and not res["violated"]:
        res["violated"] = "Deadlock"
    if p.returncode == 124:
        raise Infra("TLC timed out after %ds: %s" % (timeout, res["cmd"]))
    ok_finish = "Model checking completed. No error has been found." in out or "Finished computing initial states" in out
    if res["violated"] is None and not ok_finish and p.returncode != 0:
        res["error"] = True
    if res["error"] or (res["violated"] and not allow_violation):
        tail = "\n".join(out.splitlines()[-60:])
        raise Infra("TLC failed on %s/%s (violated=%s):\n%s" % (module, cfg, res["violated"], tail))
    shutil.rmtree(meta, ignore_errors=True)
    return res


def write_ndjson(path, rows):
    with open(path, "w") as f:
        for r in rows:
            f.write(json.dumps(r, separators=(",", ":")) + "\n")


def tv(module, trace_path, cfg=None, timeout=1200, extra_files=None):
    """Trace validation: run trace spec <module> (which reads trace.ndjson) with one worker.

    The trace specs print <<"REJECT", line, reason...>> for every line the specification does not
    allow and <<"ACCEPTED", n>> once the whole trace was consumed.  Returns dict(total, consumed,
    rejects=[(line, reason...)], states).
    """
    with Scratch() as sc:
        shutil.copy(trace_path, sc.path("trace.ndjson"))
        for k, v in (extra_files or {}).items():
            shutil.copy(v, sc.path(k))
        r = tlc(sc, module, cfg, workers=1, timeout=timeout, java_opts="-Xss512m")
    rejects, consumed = [], None
    for t in r["prints"]:
        if t and t[0] == "REJECT":
            rejects.append(tuple(t[1:]))
        elif t and t[0] == "ACCEPTED":
            consumed = t[1]
    total = sum(1 for _ in open(trace_path))
    if consumed is None or consumed != total:
        raise Infra("trace validation with %s did not consume the trace (consumed=%s total=%d)\n%s"
                    % (module, consumed, total, "\n".join(r["out"].splitlines()[-30:])))
    # TLC may evaluate an action more than once; de-duplicate
    rejects = sorted(set(rejects))
    return {"total": total, "consumed": consumed, "rejects": rejects, "states": r["distinct"], "generated": r["generated"],
            "wall": r["wall"]}


# ----------------------------------------------------------------------------- known findings, reporting

def known_findings():
    p = os.path.join(VERIF, "KNOWN_FINDINGS.json")
    if not os.path.exists(p):
        return []
    return json.load(open(p)).get("findings", [])


class Report:
    """Collects violations of one property, classifies them against KNOWN_FINDINGS.json and writes evidence."""

    def __init__(self, pid, level):
        self.pid = pid
        self.level = level
        self.t0 = time.time()
        self.viol = []      # (signature, description, replay dict)
        self.cov = {}
        self.assumptions = []
        self.known = [k for k in known_findings() if k.get("property") == pid and k.get("status") == "known"]
        os.makedirs(OUT, exist_ok=True)
        for f in os.listdir(OUT):                       # replay files of earlier runs would be misleading
            if f.startswith("replay-%s-" % pid):
                os.remove(os.path.join(OUT, f))

    def violation(self, signature, what, replay):
        """signature: short machine string naming the failing input class / call site."""
        self.viol.append((signature, what, replay))

    def finish(self):
        os.makedirs(OUT, exist_ok=True)
        os.makedirs(EVID, exist_ok=True)
        unknown, known_seen = [], {}
        for sig, what, replay in self.viol:
            k = next((k for k in self.known if re.search(k["signature"], sig)), None)
            if k is not None:
                known_seen.setdefault(k["id"], (k, 0))
                known_seen[k["id"]] = (k, known_seen[k["id"]][1] + 1)
            else:
                unknown.append((sig, what, replay))
        for kid, (k, n) in sorted(known_seen.items()):
            print("KNOWN-FINDING: property=%s %s [%s, %d occurrence(s) this run]" % (self.pid, k["what"], kid, n))
        shown = {}
        for sig, what, replay in unknown:
            if sig in shown:
                continue
            path = os.path.join(OUT, "replay-%s-%d.json" % (self.pid, len(shown)))
            shown[sig] = path
            with open(path, "w") as f:
                json.dump({"property": self.pid, "signature": sig, "what": what, "replay": replay,
                           "seed": seed(), "tier": tier()}, f, indent=1, default=str)
            print("VIOLATION property=%s replay=%s" % (self.pid, path))
            print("  " + what[:600])
            if len(shown) >= 10:
                break
        cov = dict(self.cov)
        cov["known_findings_seen"] = sorted(known_seen)
        ev = {"property_id": self.pid, "tier": tier(), "seed": seed(), "level": self.level, "coverage": cov,
              "assumptions": self.assumptions, "wall_s": round(time.time() - self.t0, 2),
              "violations": len(unknown)}
        with open(os.path.join(EVID, self.pid + ".json"), "w") as f:
            json.dump(ev, f, indent=1, default=str)
        return 1 if unknown else 0


def main_wrapper(fn):
    try:
        rc = fn()
    except Infra as e:
        log("INFRA: " + str(e))
        sys.exit(2)
    sys.exit(rc)
