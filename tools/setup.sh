#!/bin/sh
# One-time setup after a fresh restore (offline): build the harness, syntax-check the specs.
set -e
cd "$(dirname "$0")/.."
export GOFLAGS=-mod=mod GOPROXY=off GOSUMDB=off GOTOOLCHAIN=local
mkdir -p out evidence harness/bin
cp /repo/dnsrocks/go.sum harness/go.sum
(cd harness && go build -tags verif -ldflags=-checklinkname=0 -o bin/vh ./cmd/vh)
echo "setup ok"
