#!/bin/sh
# usage: tools/seedtest.sh <patch.diff> <ID> [tier]   - apply a seeded change to /repo, run the check, undo
patch="$(readlink -f "$1")"; id="$2"; tier="${3:-quick}"
git -C /repo apply "$patch" || { echo "APPLY FAILED"; exit 9; }
cd /verif && ./check "$id" --tier "$tier" > /tmp/seedtest-$id.out 2>&1; rc=$?
git -C /repo checkout -- . 
grep -E "^(VIOLATION|KNOWN-FINDING|INFRA)" /tmp/seedtest-$id.out | head -5
tail -3 /tmp/seedtest-$id.out
echo "rc=$rc"
