#!/usr/bin/env python3
"""Random well-formed data files ("worlds") and query sets for the serving-semantics checks.

Well-formed (DESIGN.md 1.4): every SOA owner also has NS at the same visibility; location ids and map ids are
two bytes; subnets parse; a network is declared at most once per map; no line is repeated; names are legal.
Input classes tied to recorded findings can be switched off (flags) so that one defect does not drown every
other check; they are switched on in the check of the property the finding belongs to."""
import ipaddress

from semlib import L, nm, name, lab, txt, net, svcb, query, SVCB_PARAMS

LABELS = ["a", "bb", "c-1", "d_2", "x9", "www", "a!", "q", "\xc3\x89x", "\x8dz"]      # "a!" is not wild-safe; E-acute (upper case) and a lone 0x8d: bytes, not text
QTYPES = [1, 28, 2, 15, 16, 5, 6, 33, 12, 65, 64, 65280]
T_A, T_AAAA = 1, 28


class World:
    def __init__(self):
        self.lines = []
        self.names = set()        # interesting query names (tuples of label strings)
        self.locs = [0]
        self.resolvers = ["10.9.9.9"]      # (ip) clients; first one is "nowhere"
        self.ecs = []             # (addr, plen) client subnets
        self.zones = []
        self.seen = set()

    def add(self, l):
        key = repr(sorted((k, repr(v)) for k, v in l.items()))
        if key in self.seen:
            return False
        self.seen.add(key)
        self.lines.append(l)
        return True

    def note(self, n):
        self.names.add(tuple(n.split(".")) if isinstance(n, str) else tuple(n))


def rname(rng, zone, maxdepth=3, p_unsafe=0.12):
    d = rng.choice([0, 1, 1, 1, 2, 2, 3][: 2 + 2 * maxdepth])
    labs = []
    for _ in range(d):
        l = rng.choice(LABELS)
        if l == "a!" and rng.random() > p_unsafe * 4:
            l = "a"
        labs.append(l)
    return ".".join(labs + [zone]) if labs else zone


def target(rng, home):
    """a target name; a name without a dot is what the format takes for the short form (x.ns.dom)"""
    s = rname(rng, home)
    return (name(s), True) if "." not in s else (nm(s), False)


def v4(rng, base=None):
    if base:
        n = ipaddress.ip_network(base)
        return str(n.network_address + rng.randrange(n.num_addresses))
    return "%d.%d.%d.%d" % (rng.choice([10, 172, 192, 203]), rng.randrange(256), rng.randrange(256), rng.randrange(1, 255))


def v6(rng, base=None):
    if base:
        n = ipaddress.ip_network(base)
        return str(n.network_address + rng.randrange(min(n.num_addresses, 1 << 32)))
    return str(ipaddress.ip_address((0x20010DB8 << 96) + rng.randrange(1 << 64)))


def gen_world(rng, nrec=25, nloc=2, with_maps=True, with_ecs=True, default_routes=False, loc_zone=True, weights=True, locs=None):
    w = World()
    w.locs = [0] + [rng.choice([1, 2, 3, 258, 0x4142][: 3 + i]) + 0 for i in range(nloc)]
    w.locs = [0] + sorted(set(w.locs[1:]))
    if locs:
        w.locs = [0] + list(locs)
    zone = rng.choice(["z", "ex.com", "a.bb"])
    w.zones.append(zone)
    tloc = lambda p=0.25: rng.choice(w.locs[1:]) if (len(w.locs) > 1 and rng.random() < p) else 0
    ttl = lambda: rng.choice([-1, -1, 0, 1, 60, 300, 86399, 2147483647])      # never an explicit value equal to a default: the same record declared twice is ill-formed

    # --- zone apex
    if rng.random() < 0.6:
        w.add(L(".", nm(zone), ip=rng.choice([None, v4(rng)]), x=name(rng.choice(["a", "b"])), xshort=True, ttl=ttl()))
        if rng.random() < 0.4:
            w.add(L("&", nm(zone), ip=rng.choice([None, v4(rng), v6(rng)]), x=nm("ns2." + zone), ttl=ttl()))
    else:
        w.add(L("Z", nm(zone), x=nm("ns1." + zone), y=nm("hostmaster." + zone),
                num=[rng.choice([-1, 7, 2024010101]), rng.choice([-1, 3600]), rng.choice([-1, 600]), rng.choice([-1, 604800]), rng.choice([-1, 300])], ttl=ttl()))
        w.add(L("&", nm(zone), ip=rng.choice([None, v4(rng)]), x=nm("ns1." + zone), ttl=ttl()))
        if rng.random() < 0.5:
            w.add(L("&", nm(zone), ip=rng.choice([None, v6(rng)]), x=name("c"), xshort=True, ttl=ttl()))
    w.note(zone)
    # --- nested zone and delegation
    nested = deleg = None
    if rng.random() < 0.6:
        nested = rname(rng, zone, 1).replace("a!", "a")
        if nested != zone:
            lo = tloc(0.2) if loc_zone else 0
            w.add(L(".", nm(nested), ip=rng.choice([None, v4(rng)]), x=name("a"), xshort=True, loc=lo))
            w.note(nested)
            w.note("x." + nested)
        else:
            nested = None
    if rng.random() < 0.7:
        deleg = rng.choice(["d", "sub", "bb"]) + "." + zone
        if deleg != nested:
            lo = tloc(0.15)
            w.add(L("&", nm(deleg), ip=rng.choice([None, v4(rng)]), x=nm("ns1." + deleg), loc=lo))
            if rng.random() < 0.5:
                w.add(L("&", nm(deleg), ip=rng.choice([None, v4(rng), v6(rng)]), x=nm("ns2.other.net"), loc=lo))
            if rng.random() < 0.4:
                w.add(L("+", nm("ns1." + deleg), ip=v6(rng)))
            w.note(deleg)
            w.note("below." + deleg)
            w.note("ns1." + deleg)
        else:
            deleg = None
    homes = [zone] + ([nested] if nested else [])

    # --- records
    kinds = ["+", "+", "+", "+", "=", "@", "S", "C", "^", "'", "'", ":", "H", "B"]
    for _ in range(nrec):
        home = rng.choice(homes)
        owner = rname(rng, home)
        k = rng.choice(kinds)
        lo = tloc()
        wild = rng.random() < 0.25
        if k == "+":
            fam6 = rng.random() < 0.3
            wt = rng.choice([-1, -1, 1, 0, 2, 3, 4294967295]) if weights else -1
            for _ in range(rng.choice([1, 1, 2, 3])):
                l = L("+", nm(owner), wild=wild, ip=v6(rng) if fam6 else v4(rng), ttl=ttl(), loc=lo, num=[min(wt, 2147483647)])
                l["_numtext"] = str(wt) if wt >= 0 else ""
                w.add(l)
                wt = rng.choice([-1, 1, 0, 2, 5]) if weights else -1
        elif k == "=":
            w.add(L("=", nm(owner), wild=wild, ip=v6(rng) if rng.random() < 0.3 else v4(rng), ttl=ttl(), loc=lo))
        elif k == "@":
            short = rng.random() < 0.5
            x, xs = (name(rng.choice(["m", "mail"])), True) if short else target(rng, home)
            w.add(L("@", nm(owner), ip=rng.choice([None, v4(rng), v6(rng)]), x=x, xshort=xs, num=[rng.choice([-1, 0, 10, 65535])], ttl=ttl(), loc=lo))
        elif k == "S":
            short = rng.random() < 0.5
            x, xs = (name("s1"), True) if short else target(rng, home)
            w.add(L("S", nm("_s._tcp." + owner), ip=rng.choice([None, v4(rng)]), x=x, xshort=xs,
                    num=[rng.choice([-1, 443, 65535]), rng.choice([-1, 0, 10]), rng.choice([-1, 0, 5])], ttl=ttl(), loc=lo))
            owner = "_s._tcp." + owner
        elif k == "C":
            w.add(L("C", nm(owner), wild=wild, x=nm(rname(rng, home)), ttl=ttl(), loc=lo))
        elif k == "^":
            w.add(L("^", nm(owner), x=nm(rname(rng, home)), ttl=ttl(), loc=lo))
        elif k == "'":
            n = rng.choice([1, 2, 5, 20, 127, 128, 300])
            body = [rng.choice(b"abcxyz019 =_-;\"") for _ in range(n)]
            if rng.random() < 0.4 and n:
                body[rng.randrange(n)] = rng.choice([44, 44, 58, 58, 92, 10, 0, 200])
            w.add(L("'", nm(owner), wild=wild, rd=body, ttl=ttl(), loc=lo))
        elif k == ":":
            t, rd = rng.choice([(65280, [1, 2, 3, 255, 0]), (65281, []), (13, [3, 99, 112, 117, 2, 111, 115]), (99, [4, 118, 61, 115, 49])])
            w.add(L(":", nm(owner), num=[t], rd=rd, ttl=ttl(), loc=lo))
        elif k in "HB":
            w.add(svcb(k, nm(owner), rng.choice([[], nm(rname(rng, home))]), rng.choice([0, 60, 7200]), rng.choice([0, 1, 2]),
                       rng.randrange(len(SVCB_PARAMS)), wild=wild, loc=lo))
        w.note(owner)
        if wild:
            w.note("zz." + owner)
            w.note("q.zz." + owner)
            w.note("a!." + owner)
        if rng.random() < 0.3:
            w.note("nx." + owner)
    w.note("nope." + zone)
    w.note("other.example")
    w.note("a!.nope." + zone)
    # targets are interesting names too
    for l in list(w.lines):
        if l["x"] and not l["xshort"]:
            w.note(txt(l["x"]))
        if l["xshort"]:
            w.note(txt(l["x"]) + "." + {".": "ns", "&": "ns", "@": "mx", "S": "srv"}[l["t"]] + "." + txt(l["dom"]))
        if l["t"] == "=":
            a = ipaddress.ip_address(l["_ip"])
            w.note(a.reverse_pointer)

    # --- maps and subnets
    if with_maps and len(w.locs) > 1:
        mid = 0x6D31
        wildmap = rng.random() < 0.6
        w.add(L("M", nm(zone), wild=wildmap, mapid=mid))
        if not wildmap or rng.random() < 0.4:
            w.add(L("M", nm(zone), wild=not wildmap, mapid=mid))
        nets4 = ["10.0.0.0/8", "10.1.0.0/16", "10.1.2.0/24", "10.1.2.128/25", "192.168.0.0/16", "172.16.0.0/12", "203.0.113.7/32", "10.1.3.0/24"]
        nets6 = ["2001:db8::/32", "2001:db8:1::/48", "2001:db8:1:2::/64", "fd00::/8", "2001:db8::1/128"]
        chosen = rng.sample(nets4, rng.randrange(1, 5)) + rng.sample(nets6, rng.randrange(0, 3))
        if default_routes:
            chosen += rng.choice([[], ["0.0.0.0/0"], ["::/0"], ["0.0.0.0/0", "::/0"]])
        for c in chosen:
            w.add(net(rng.choice(w.locs[1:]), c, mid))
            n = ipaddress.ip_network(c)
            w.resolvers.append(v4(rng, c) if n.version == 4 else v6(rng, c))
        w.resolvers += ["10.200.0.1", "2001:db9::5"]
        if with_ecs:
            emid = 0x6532
            w.add(L("8", nm(zone), wild=rng.random() < 0.7, mapid=emid))
            if rng.random() < 0.5:
                w.add(L("8", nm(zone), wild=False, mapid=emid))
            ch = rng.sample(nets4, rng.randrange(1, 4)) + rng.sample(nets6, rng.randrange(0, 2))
            for c in ch:
                w.add(net(rng.choice(w.locs[1:]), c, emid))
                n = ipaddress.ip_network(c)
                maxp = 32 if n.version == 4 else 128
                w.ecs.append((str(n.network_address), n.prefixlen))
                if n.prefixlen < maxp:
                    inner = ipaddress.ip_network((int(n.network_address) + rng.randrange(n.num_addresses), min(maxp, n.prefixlen + rng.randrange(1, 9))), strict=False)
                    w.ecs.append((str(inner.network_address), inner.prefixlen))
                if n.prefixlen > 0:
                    outer = n.supernet(prefixlen_diff=min(n.prefixlen, rng.randrange(1, 5)))
                    w.ecs.append((str(outer.network_address), outer.prefixlen))
            w.ecs += [("198.51.100.0", 24), ("2001:db9::", 32), ("0.0.0.0", 0)]
    return w


def world_queries(w, rng, per_name=4, maxans_choices=(1,), exact=False):
    """yield (q, c) pairs: every interesting name x a few types x a few clients"""
    out = []
    names = sorted(w.names)
    for n in names:
        types = set(rng.sample(QTYPES, min(per_name, len(QTYPES)))) | {1}
        for t in sorted(types):
            rip = rng.choice(w.resolvers)
            ecs = rng.choice(w.ecs) if (w.ecs and rng.random() < 0.35) else None
            edns = rng.random() < 0.3
            ma = rng.choice(maxans_choices)
            out.append(query([[ord(c) for c in l] for l in n if l != ""], t, rip, ecs=ecs, edns=edns, maxans=ma, exact=exact,
                             upper=rng.random() < 0.1))
    return out
