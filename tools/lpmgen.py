#!/usr/bin/env python3
"""C03 / C10 input generation: subnet sets enumerated by TLC on the toy address space of LpmImpl.tla are embedded
into the real IPv4 / IPv6 space.

Embedding ("bit groups"): the toy IPv4 block is the prefix P of OFF bits (\"01\", \"001\" or \"011\"); the real one is
0^80 1^16.  Each toy prefix bit stands for a group of real bits (\"01\" -> 80|16, \"001\" -> 40|40|16, \"011\" -> 80|8|8), so
toy prefix containment, the position of the IPv4 block inside the IPv6 space, the default routes, network address
:: / 0.0.0.0 with a non-zero length and the last address all have faithful counterparts.  The B-OFF remaining toy
bits go into the last 32 real bits, by variant:
  top   at bit 96 (toy /OFF+n -> real /96+n; 0.0.0.0/n, ::/96+n)
  ones  at the very end, filler bits 1 (ranges end at 255.255.255.255 / ffff:...:ffff)
  zero  at the very end, filler bits 0 (network addresses 0.0.0.x, long prefixes)
  mid   after a 13-bit filler 0b0000101000001 (lengths straddle a byte boundary)
"""
import ipaddress

GROUPS = {(2, 1): [80, 16], (3, 1): [40, 40, 16], (3, 3): [80, 8, 8]}   # (OFF, prefix value) -> group sizes
VARIANTS = ["top", "ones", "zero", "mid"]
MIDFILL = (0b0000101000001, 13)


class Space:
    def __init__(self, B, OFF, V4First):
        self.B, self.OFF, self.V4First = B, OFF, V4First
        self.w = B - OFF
        self.prefix = V4First >> self.w
        self.groups = GROUPS[(OFF, self.prefix)]

    def real(self, addr, length, variant, fill=0):
        """toy (addr, prefix length) -> (128-bit int, real length). Bits beyond the toy length are `fill` (0/1)."""
        B, OFF, w = self.B, self.OFF, self.w
        bits = [(addr >> (B - 1 - i)) & 1 for i in range(B)]
        for i in range(length, B):
            bits[i] = fill
        val, pos = 0, 0
        for i in range(OFF):
            g = self.groups[i]
            val = (val << g) | ((1 << g) - 1 if bits[i] else 0)
            pos += g
        host = 0
        for i in range(OFF, B):
            host = (host << 1) | bits[i]
        if variant == "top":
            tail = (host << (32 - w)) | (((1 << (32 - w)) - 1) if fill else 0)
            hl = 0
        elif variant == "ones":
            tail = (((1 << (32 - w)) - 1) << w) | host
            hl = 32 - w
        elif variant == "zero":
            tail = host
            hl = 32 - w
        else:
            f, fl = MIDFILL
            rest = 32 - fl - w
            tail = (f << (32 - fl)) | (host << rest) | (((1 << rest) - 1) if fill else 0)
            hl = fl
        val = (val << 32) | tail
        if length <= OFF:
            rl = sum(self.groups[:length])
            # bits beyond the real length: fill
            if rl < 128:
                m = (1 << (128 - rl)) - 1
                val = (val & ~m) | (m if fill else 0)
        else:
            rl = 96 + hl + (length - OFF)
            m = (1 << (128 - rl)) - 1
            val = (val & ~m) | (m if fill else 0)
        return val, rl

    def is_v4(self, addr):
        return (addr >> self.w) == self.prefix


def cidr(val, rl, fam):
    """real (value, length in 128-bit space) -> text in the notation of its family"""
    if fam == 4:
        return "%s/%d" % (ipaddress.IPv4Address(val & 0xFFFFFFFF), rl - 96)
    return "%s/%d" % (ipaddress.IPv6Address(val), rl)


def addr_text(val, fam):
    return str(ipaddress.IPv4Address(val & 0xFFFFFFFF)) if fam == 4 else str(ipaddress.IPv6Address(val))


def toy_clients(sp):
    """all canonical toy clients (fam, addr, plen) as in LpmImpl!Clients"""
    out = []
    for plen in range(sp.B + 1):
        size = 1 << (sp.B - plen)
        for addr in range(0, 1 << sp.B, size):
            v4 = sp.is_v4(addr)
            if v4 and plen >= sp.OFF:
                out.append((4, addr, plen))
            if not v4:
                # an IPv6 client prefix that is shorter than the v4 prefix and contains it is still an IPv6 client
                out.append((6, addr, plen))
    return out
