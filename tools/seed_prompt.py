#!/usr/bin/env python3
"""Print the prompt given to a seeding sub-agent for one property (only the property text, no /verif content)."""
import json, sys
pid = sys.argv[1]
X, Y = (sys.argv[2], sys.argv[3]) if len(sys.argv) > 3 else ("A", "B")
import glob, os
used = []
for m in sorted(glob.glob('/verif/seeded/%s-*/meta.json' % pid)):
    used.append("  - " + json.load(open(m))["summary"].split(". ")[0][:260])
for l in open('/verif/properties.jsonl'):
    p = json.loads(l)
    if p['id'] == pid:
        break
else:
    sys.exit('no such property')
print(f"""You are helping to evaluate a verification framework by producing *seeded defects* (mutants) for an open-source Go project: facebookincubator/dns (dnsrocks, Meta's authoritative DNS server). You work ONLY inside your own scratch git worktree of the repository at /tmp/seed/{pid} (Go module at /tmp/seed/{pid}/dnsrocks). Do NOT read or touch /verif or /repo. Do not commit anything; leave your changes un-committed while working and reset the worktree (git checkout -- . ; remove untracked files you added) when you finish.

The semantic property to break:

  ID: {pid}
  Title: {p['title']}
  Statement: {p['statement']}
  Quantified over: {p['quantifier']['text']}
  Code anchors: {', '.join(p['anchors'].get('files', []))}

Task: produce TWO different, independent changes (call them {X} and {Y}; different root cause / different code site) to the project's non-test source code, each of which makes the implementation violate this property, while
  (1) the code still compiles (go build ./... in dnsrocks and in dnsrocks/go-cdb-mods),
  (2) the existing test suite still passes exactly as before (see commands below), and
  (3) the violation needs something *specific* to manifest — a particular interleaving, a fault/crash at a particular point, a multi-step sequence of operations, an unusual input (boundary value, rare combination), or two cooperating sites that each look fine alone. NOT a change that ordinary use would expose at once (e.g. not "every answer is wrong"). Think of realistic bugs a maintainer could introduce in a refactor or 'optimisation': an off-by-one at a boundary, a dropped lock or a lock released too early, a check moved after the point it protected, a cache key missing a component, an error path that forgets cleanup, a comparison that ignores one field, an in-place mutation of shared data, etc.
For each change provide a *demonstration*: a Go test file (or small main program) that FAILS with the change applied and PASSES on the unmodified code. The demonstration must be deterministic or near-deterministic (if it needs a race/interleaving, use sleeps/channels/loops so that it fails reliably, say >= 9 runs out of 10).

Environment (sandbox, no network):
  export GOFLAGS=-mod=mod GOPROXY=off GOSUMDB=off GOTOOLCHAIN=local
  Existing suite:  cd /tmp/seed/{pid}/dnsrocks && go test -vet=off -count=1 ./...    (about 30 s; the packages cmd/dnsrocks, db, dnsserver, fbserver, logger, whoami FAIL TO LINK at baseline with "invalid reference to syscall.recvmsg" — that is expected and pre-existing, they count as not part of the suite) and  cd /tmp/seed/{pid}/dnsrocks/go-cdb-mods && go test -vet=off -count=1 ./...
  Those non-linking packages DO link and run when you add  -ldflags=-checklinkname=0  (e.g. go test -vet=off -count=1 -ldflags=-checklinkname=0 ./db/ ./dnsserver/ ./fbserver/ ). Use that flag for your demonstrations when they live in those packages. It is a plus (more subtle) if your change also keeps those extra tests passing; say in meta.json whether it does.
  RocksDB (cgo) is installed; go test works offline. Put temporary files under /tmp/seed/{pid}-scratch and delete them at the end.

Changes of this kind that already exist and must NOT be repeated (choose other code sites / other mechanisms):
{chr(10).join(used) if used else "  (none)"}

Deliverables, written to /tmp/seed/{pid}-out/ :
  {X}/patch.diff   — output of `git diff` (non-test source only) for change {X}, applicable with `git apply` at the repository root
  {X}/demo/...     — the demonstration file(s), with the path where each must be placed relative to the repository root noted in meta.json (e.g. dnsrocks/db/zz_demo_test.go), and the exact command to run it
  {X}/meta.json    — {{"property": "{pid}", "summary": "...what the change does...", "needs": "...what it takes to manifest...", "demo_files": {{"<file in demo/>": "<destination path relative to repo root>"}}, "demo_cmd": "...", "suite_passes": true, "extra_linkable_tests_pass": true/false, "verified": "what you ran and observed, with and without the patch"}}
  {Y}/...          — same for change {Y}
Verify everything yourself before finishing: with the patch — build OK, existing suite passes, demo FAILS; without the patch — demo PASSES. Finally reset the worktree to a clean state. Your final message should be a short summary of {X} and {Y} (one paragraph each).""")
