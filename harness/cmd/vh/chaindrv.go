package main

// chain: driver of C20. For every front-handler configuration it starts a REAL fbserver.Server on loopback
// addresses (two listeners with their own max-answer, UDP and TCP), sends every query of the plan with a real
// dns.Client over the requested transport, and asks a bare dnsserver.FBDNSDB on the same database the same question
// in-process with that listener's max-answer. Nothing is judged here: ChainTrace.tla compares.
//
// Input (ndjson, -in): the descriptors printed by Chain.tla
//   {"cfg":{"whoami":B,"refuse_any":B,"maxans":[a,b]},"name":N,"type":T,"nq":K,"tr":{"proto":..,"buf":..},"listener":L}

import (
	"context"
	"encoding/json"
	"flag"
	"fmt"
	"net"
	"os"
	"path/filepath"
	"sort"
	"strings"
	"time"

	"github.com/miekg/dns"

	"github.com/facebookincubator/dns/dnsrocks/dnsdata/cdb"
	"github.com/facebookincubator/dns/dnsrocks/dnsdata/rdb"
	"github.com/facebookincubator/dns/dnsrocks/dnsserver"
	"github.com/facebookincubator/dns/dnsrocks/fbserver"
	"github.com/facebookincubator/dns/dnsrocks/metrics"

	"verifharness/internal/hx"
)

func init() { register("chain", chainMain) }

type chainCfg struct {
	Whoami    bool  `json:"whoami"`
	RefuseANY bool  `json:"refuse_any"`
	MaxAns    []int `json:"maxans"`
}

type chainIn struct {
	Cfg   chainCfg `json:"cfg"`
	Name  int      `json:"name"`
	Type  int      `json:"type"`
	Class int      `json:"class"`
	NQ    int      `json:"nq"`
	Tr    struct {
		Proto string `json:"proto"`
		Buf   int    `json:"buf"`
	} `json:"tr"`
	Listener int `json:"listener"`
}

const chainWhoami = "who.z."

var chainNames = []string{"a.z.", "big.z.", "nx.z.", "d.z.", "z.", "out.example.", "who.z.", "sub.who.z.", "notwho.z.", "WHO.Z.", "mx.z."}

func chainDB() string {
	var b strings.Builder
	b.WriteString(".z,192.0.2.53,a\n+a.z,192.0.2.1\n+a.z,192.0.2.2\n+a.z,192.0.2.3\n+a.z,2001:db8::1\n+a.z,2001:db8::2\n'a.z,atxt\n&d.z,192.0.2.54,a\n")
	b.WriteString("@mx.z,192.0.2.25,a,10\n@mx.z,192.0.2.26,b,20\n'who.z,from-the-database\n+who.z,192.0.2.77\n+sub.who.z,192.0.2.78\n'sub.who.z,below\n+notwho.z,192.0.2.79\n'notwho.z,suffix\n")
	for i := 0; i < 40; i++ {
		fmt.Fprintf(&b, "'big.z,%s\n", strings.Repeat(fmt.Sprintf("%02d", i), 30))
	}
	return b.String()
}

type chainExporter struct{}

func (chainExporter) ConsumeStats(string, *metrics.Stats) error { return nil }

type chainTCPWriter struct{ semWriter }

func (w *chainTCPWriter) RemoteAddr() net.Addr {
	return &net.TCPAddr{IP: net.ParseIP("127.0.0.1"), Port: 40212}
}
func (w *chainTCPWriter) LocalAddr() net.Addr {
	return &net.TCPAddr{IP: net.ParseIP("127.0.0.1"), Port: 53}
}

type chainResp struct {
	semResp
	Size int `json:"size"`
}

func freePort() int {
	for i := 0; i < 50; i++ {
		l, err := net.Listen("tcp", "127.0.0.1:0")
		if err != nil {
			continue
		}
		p := l.Addr().(*net.TCPAddr).Port
		l.Close()
		u1, e1 := net.ListenPacket("udp", fmt.Sprintf("127.0.0.1:%d", p))
		u2, e2 := net.ListenPacket("udp", fmt.Sprintf("127.0.0.2:%d", p))
		t2, e3 := net.Listen("tcp", fmt.Sprintf("127.0.0.2:%d", p))
		if u1 != nil {
			u1.Close()
		}
		if u2 != nil {
			u2.Close()
		}
		if t2 != nil {
			t2.Close()
		}
		if e1 == nil && e2 == nil && e3 == nil {
			return p
		}
	}
	hx.Die("no free port")
	return 0
}

func chainQuery(e *chainIn) *dns.Msg {
	m := new(dns.Msg)
	m.Id = dns.Id()
	if e.NQ > 0 {
		cl := uint16(e.Class)
		if cl == 0 {
			cl = dns.ClassINET
		}
		m.Question = []dns.Question{{Name: chainNames[e.Name], Qtype: uint16(e.Type), Qclass: cl}}
	}
	if e.Tr.Buf > 0 {
		m.SetEdns0(uint16(e.Tr.Buf), false)
	}
	return m
}

func chainMain(args []string) {
	fs := flag.NewFlagSet("chain", flag.ExitOnError)
	in := fs.String("in", "", "input ndjson")
	outp := fs.String("out", "trace.ndjson", "output ndjson")
	fs.Parse(args)
	wr := hx.NewWriter(*outp)
	defer wr.Close()
	// group the plan by configuration
	groups := map[string][]chainIn{}
	order := []string{}
	hx.ReadLines(*in, func(line []byte) {
		var e chainIn
		if err := json.Unmarshal(line, &e); err != nil {
			hx.Die("bad input line: %v", err)
		}
		k, _ := json.Marshal(e.Cfg)
		if _, ok := groups[string(k)]; !ok {
			order = append(order, string(k))
		}
		groups[string(k)] = append(groups[string(k)], e)
	})
	sort.Strings(order)
	dir := hx.TempDir("vh-chain-")
	defer os.RemoveAll(dir)
	src := filepath.Join(dir, "data.txt")
	os.WriteFile(src, []byte(chainDB()), 0o644)
	cdbPath := filepath.Join(dir, "data.cdb")
	if _, err := cdb.CreateCDB(src, cdbPath, &cdb.CreatorOptions{NumCPU: 1}); err != nil {
		hx.Die("%v", err)
	}
	rdbPath := filepath.Join(dir, "rdb")
	os.MkdirAll(rdbPath, 0o755)
	if _, err := rdb.CompileToSpecificRDBVersion(src, rdbPath, rdb.CompilationOptions{NumCPU: 1, UseV2KeySyntax: true, BatchNumParallel: 1, BatchSize: 1000}); err != nil {
		hx.Die("%v", err)
	}
	n := 0
	for gi, k := range order {
		plan := groups[k]
		cfg := plan[0].Cfg
		path, driver := cdbPath, "cdb"
		if gi%2 == 1 {
			path, driver = rdbPath, "rocksdb"
		}
		port := freePort()
		conf := fbserver.NewServerConfig()
		ips := []string{"127.0.0.1", "127.0.0.2"}
		for i, ip := range ips {
			if err := conf.IPAns.Set(fmt.Sprintf("%s,%d", ip, cfg.MaxAns[i])); err != nil {
				hx.Die("%v", err)
			}
		}
		conf.Port = port
		conf.TCP = true
		conf.ReadTimeout = 2 * time.Second
		conf.TCPIdleTimeout = 2 * time.Second
		conf.DBConfig = dnsserver.DBConfig{Path: path, Driver: driver, ReloadTimeout: 10 * time.Second}
		conf.RefuseANY = cfg.RefuseANY
		if cfg.Whoami {
			conf.WhoamiDomain = chainWhoami
		}
		srv := fbserver.NewServer(conf, &dnsserver.DummyLogger{}, semNullStats{}, chainExporter{})
		if err := srv.Start(); err != nil {
			hx.Die("server start: %v", err)
		}
		bare, err := dnsserver.NewFBDNSDBBasic(dnsserver.HandlerConfig{}, dnsserver.DBConfig{Path: path, Driver: driver, ReloadTimeout: 10 * time.Second},
			dnsserver.CacheConfig{}, &dnsserver.DummyLogger{}, semNullStats{})
		if err != nil {
			hx.Die("%v", err)
		}
		if err := bare.Load(); err != nil {
			hx.Die("%v", err)
		}
		probe := func(ip string) bool {
			c := &dns.Client{Net: "udp", Timeout: 500 * time.Millisecond}
			m := new(dns.Msg)
			m.SetQuestion("z.", dns.TypeSOA)
			r, _, err := c.Exchange(m, net.JoinHostPort(ip, fmt.Sprint(port)))
			return err == nil && r != nil
		}
		up := false
		for i := 0; i < 100 && !up; i++ {
			up = probe(ips[0]) && probe(ips[1])
			if !up {
				time.Sleep(50 * time.Millisecond)
			}
		}
		if !up {
			hx.Die("server did not come up on port %d", port)
		}
		for _, e := range plan {
			e := e
			ip := ips[e.Listener-1]
			q := chainQuery(&e)
			c := &dns.Client{Net: e.Tr.Proto, Timeout: 2 * time.Second}
			if e.Tr.Proto == "udp" && e.Tr.Buf > 0 {
				c.UDPSize = uint16(e.Tr.Buf)
			}
			out := map[string]interface{}{"ev": "x", "cfg": cfg, "name": e.Name, "type": e.Type, "class": e.Class, "nq": e.NQ, "proto": e.Tr.Proto, "buf": e.Tr.Buf, "listener": e.Listener,
				"is_whoami": cfg.Whoami && e.NQ > 0 && strings.EqualFold(chainNames[e.Name], chainWhoami), "received": false, "alive": true, "backend": driver, "err": ""}
			empty := chainResp{semResp: semResp{An: []semRR{}, Ns: []semRR{}, Ex: []semRR{}, ECS: semRespECS{B: []int{}}}}
			out["t"], out["i"] = empty, empty
			// raw exchange: the size that counts is the size on the wire
			func() {
				co, err := c.Dial(net.JoinHostPort(ip, fmt.Sprint(port)))
				if err != nil {
					out["err"] = err.Error()
					return
				}
				defer co.Close()
				co.SetDeadline(time.Now().Add(2 * time.Second))
				if e.Tr.Proto == "udp" {
					co.UDPSize = 65535
				}
				if e.NQ < 0 {
					// header only: QDCOUNT says 1, no question follows (TCP: with its 2-byte length prefix)
					hdr := []byte{byte(q.Id >> 8), byte(q.Id), 0x01, 0x00, 0, 1, 0, 0, 0, 0, 0, 0}
					if e.Tr.Proto == "tcp" {
						hdr = append([]byte{0, 12}, hdr...)
					}
					if _, err := co.Conn.Write(hdr); err != nil {
						out["err"] = err.Error()
						return
					}
				} else if err := co.WriteMsg(q); err != nil {
					out["err"] = err.Error()
					return
				}
				raw, err := co.ReadMsgHeader(nil)
				if err != nil {
					out["err"] = err.Error()
					return
				}
				r := new(dns.Msg)
				if err := r.Unpack(raw); err != nil {
					out["err"] = "unpack: " + err.Error()
					return
				}
				if r.Id != q.Id {
					out["err"] = "id mismatch"
					return
				}
				out["received"] = true
				out["t"] = chainResp{semResp: semNorm(r), Size: len(raw)}
			}()
			if e.NQ > 0 {
				// the bare handler, in-process, complete (TCP-like writer), with this listener's max-answer
				w := &chainTCPWriter{semWriter{ip: net.ParseIP("127.0.0.1")}}
				req := chainQuery(&e)
				wireq, _ := req.Pack()
				m2 := new(dns.Msg)
				m2.Unpack(wireq)
				func() {
					defer func() {
						if p := recover(); p != nil {
							out["err"] = fmt.Sprintf("bare handler panicked: %v", p)
						}
					}()
					bare.ServeDNS(dnsserver.WithMaxAnswer(context.Background(), cfg.MaxAns[e.Listener-1]), w, m2)
				}()
				if w.msg != nil {
					out["i"] = chainResp{semResp: semNorm(w.msg), Size: w.size}
				}
			}
			out["alive"] = probe(ip)
			wr.Put(out)
			n++
		}
		srv.Shutdown()
		bare.Close()
		time.Sleep(100 * time.Millisecond)
	}
	fmt.Printf("{\"exchanges\":%d,\"configs\":%d}\n", n, len(order))
}
