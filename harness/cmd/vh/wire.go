package main

// wire event of the sem driver (C13): a query descriptor (ids, see spec/Wire.tla) is turned into a real message,
// packed, unpacked and handed to the real handler; the outcome is reduced to the fields the reply contract talks about.

import (
	"bytes"
	"context"
	"fmt"
	"net"
	"sort"
	"strings"

	"github.com/miekg/dns"

	"github.com/facebookincubator/dns/dnsrocks/db"
	"github.com/facebookincubator/dns/dnsrocks/dnsserver"
)

type wireDesc struct {
	Name   int `json:"name"`
	Type   int `json:"type"`
	Class  int `json:"class"`
	Opcode int `json:"opcode"`
	EDNS   int `json:"edns"`
	Size   int `json:"size"`
	Opts   int `json:"opts"`
	Flags  int `json:"flags"`
}

type wireOut struct {
	Delivered bool   `json:"delivered"` // the message survived pack / unpack and reached the handler
	Panic     string `json:"panic"`
	Written   bool   `json:"written"`
	RC        int    `json:"rc"`
	HErr      string `json:"herr"`
	PackErr   string `json:"packerr"`
	IDOk      bool   `json:"id_ok"`
	QOk       bool   `json:"q_ok"`
	QR        bool   `json:"qr"`
	Rcode     int    `json:"rcode"`
	Size      int    `json:"size"`
	TC        bool   `json:"tc"`
	Opt       bool   `json:"opt"`
	BaseSame  bool   `json:"base_same"`
	digest    string
}

func wireName(id int) string {
	switch id {
	case 0:
		return "."
	case 1:
		return "a.z."
	case 2:
		return "nx.a.z."
	case 3:
		return strings.Repeat("a.", 126) + "z."
	case 4:
		l := strings.Repeat("b", 63)
		return l + "." + l + "." + l + "." + strings.Repeat("c", 59) + ".z."
	case 5:
		return "\\000x.z."
	case 6:
		return "a\\.b.z."
	case 7:
		return "\\200\\255.z."
	case 8:
		return "A.Z."
	case 9:
		return "d.z."
	case 10:
		return "below.d.z."
	case 11:
		return "out.example."
	case 12:
		return "*.z."
	case 13:
		return "z."
	case 15:
		return "mid.z."
	default:
		return "big.z."
	}
}

func wireOpts(id int, stripUnknown bool) []dns.EDNS0 {
	local := func(code uint16, data []byte) dns.EDNS0 { return &dns.EDNS0_LOCAL{Code: code, Data: data} }
	ecs := func(fam uint16, src, scope uint8, addr []byte) dns.EDNS0 {
		return local(dns.EDNS0SUBNET, append([]byte{byte(fam >> 8), byte(fam), src, scope}, addr...))
	}
	var o []dns.EDNS0
	switch id {
	case 1:
		o = []dns.EDNS0{local(65001, []byte{1, 2, 3})}
	case 2:
		o = []dns.EDNS0{local(10, []byte{1, 2, 3, 4, 5, 6, 7, 8})}
	case 3:
		o = []dns.EDNS0{ecs(1, 24, 0, []byte{10, 1, 2}), ecs(2, 32, 0, []byte{0x20, 1, 0xd, 0xb8})}
	case 4:
		o = []dns.EDNS0{ecs(0, 0, 0, nil)}
	case 5:
		o = []dns.EDNS0{ecs(3, 8, 0, []byte{10})}
	case 6:
		o = []dns.EDNS0{ecs(1, 33, 0, []byte{10, 1, 2, 3, 4})}
	case 7:
		o = []dns.EDNS0{ecs(1, 24, 0, []byte{10})}
	case 8:
		o = []dns.EDNS0{ecs(1, 8, 0, []byte{10, 1, 2, 3})}
	case 9:
		o = []dns.EDNS0{ecs(1, 24, 16, []byte{10, 1, 2})}
	case 10:
		o = []dns.EDNS0{local(3, nil)}
	case 11:
		o = []dns.EDNS0{local(12, make([]byte, 100))}
	case 12:
		o = []dns.EDNS0{local(65001, []byte{9}), ecs(1, 24, 0, []byte{10, 1, 2})}
	case 13:
		o = []dns.EDNS0{ecs(2, 129, 0, make([]byte, 17))}
	case 14:
		o = []dns.EDNS0{ecs(1, 24, 0, []byte{10, 1, 2})}
	case 15:
		o = []dns.EDNS0{ecs(2, 128, 0, []byte{0x20, 1, 0xd, 0xb8, 0, 0, 0, 0, 0, 0, 0, 0, 0, 0, 0, 1})}
	}
	if stripUnknown {
		var k []dns.EDNS0
		for _, x := range o {
			if l, ok := x.(*dns.EDNS0_LOCAL); ok && l.Code != dns.EDNS0SUBNET {
				continue
			}
			k = append(k, x)
		}
		return k
	}
	return o
}

func wireBuild(d wireDesc, id uint16, stripUnknown bool) *dns.Msg {
	m := new(dns.Msg)
	m.Id = id
	m.Opcode = d.Opcode
	m.Question = []dns.Question{{Name: wireName(d.Name), Qtype: uint16(d.Type), Qclass: uint16(d.Class)}}
	if d.Flags < 8 {
		m.RecursionDesired = d.Flags&1 != 0
		m.CheckingDisabled = d.Flags&2 != 0
		m.AuthenticatedData = d.Flags&4 != 0
	} else if d.Flags == 8 {
		m.Response = true
	} else {
		m.Truncated = true
		m.Authoritative = true
	}
	if d.EDNS >= 0 {
		o := new(dns.OPT)
		o.Hdr.Name = "."
		o.Hdr.Rrtype = dns.TypeOPT
		o.SetUDPSize(uint16(d.Size))
		o.SetVersion(uint8(d.EDNS))
		o.Option = wireOpts(d.Opts, stripUnknown)
		m.Extra = append(m.Extra, o)
	}
	return m
}

func rrDigest(rrs []dns.RR) string {
	l := []string{}
	for _, rr := range rrs {
		if rr.Header().Rrtype == dns.TypeOPT {
			continue
		}
		if t := rr.Header().Rrtype; t == dns.TypeA || t == dns.TypeAAAA {
			// weighted selection: which address was drawn differs from call to call
			l = append(l, fmt.Sprintf("%s %d addr", rr.Header().Name, t))
			continue
		}
		l = append(l, rr.String())
	}
	sort.Strings(l)
	return strings.Join(l, "|")
}

func wireServe(b *semBackend, d wireDesc, stripUnknown bool) (out wireOut) {
	req := wireBuild(d, 4242, stripUnknown)
	wire, err := req.Pack()
	if err != nil {
		out.HErr = "query does not pack: " + err.Error()
		out.BaseSame = true
		return out
	}
	m2 := new(dns.Msg)
	if err := m2.Unpack(wire); err != nil {
		out.HErr = "query does not unpack: " + err.Error()
		out.BaseSame = true
		return out
	}
	out.Delivered = true
	w := &semWriter{ip: net.ParseIP("10.1.2.3")}
	ctx := dnsserver.WithMaxAnswer(context.Background(), 1)
	if !semConcurrent {
		db.SeparateBitMap = b.sep
	}
	defer func() {
		if !semConcurrent {
			db.SeparateBitMap = false
		}
		if e := recover(); e != nil {
			out.Panic = fmt.Sprint(e)
		}
	}()
	rc, herr := b.h.ServeDNS(ctx, w, m2)
	out.RC = rc
	if herr != nil {
		out.HErr = herr.Error()
	}
	if w.msg == nil {
		out.digest = fmt.Sprintf("nowrite rc=%d", rc)
		return out
	}
	out.Written = true
	out.PackErr = w.packErr
	r := w.msg
	out.IDOk = r.Id == 4242
	out.QR = r.Response
	out.QOk = len(r.Question) == 1 && r.Question[0].Name == m2.Question[0].Name &&
		r.Question[0].Qtype == m2.Question[0].Qtype && r.Question[0].Qclass == m2.Question[0].Qclass
	out.Rcode = r.Rcode
	out.TC = r.Truncated
	out.Size = w.size
	if o := r.IsEdns0(); o != nil {
		out.Opt = true
		if r.Rcode <= 0xf {
			out.Rcode = r.Rcode | o.ExtendedRcode()
		}
	}
	var buf bytes.Buffer
	fmt.Fprintf(&buf, "rcode=%d aa=%v tc=%v an=%s ns=%s ex=%s", out.Rcode, r.Authoritative, r.Truncated, rrDigest(r.Answer), rrDigest(r.Ns), rrDigest(r.Extra))
	out.digest = buf.String()
	return out
}
