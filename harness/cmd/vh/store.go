package main

// store: driver of the storage-pipeline checks C07 (compilation), C08 (diffs) and the preprocessing half of C09.
//
// Input (ndjson, -in):
//   {"ev":"compile","id":N,"text":"<data file>","serial":S,"settings":[{name,kind,builder,numcpu,batch,parallel,v2}],"detail":B}
//   {"ev":"diff","id":N,"texts":["A","B","C"...],"v2":B,"order":"plain|reverse|shuffle","serial":S,"detail":B}
//   {"ev":"baddiff","id":N,"text":"A","diff":"<diff text>","v2":B,"serial":S}
//   {"ev":"preproc","id":N,"text":"A","v2":B,"serial":S,"detail":B}
// The driver runs the REAL compilers / ApplyDiff / Preprocess, dumps the produced databases completely (CDB:
// ForEachKeys, RocksDB: iterator + ReadNextChunk) and writes what it saw next to the reference - the records the
// sequential line-by-line codec emits - as key -> list of values.  The comparison itself (map of multisets) is
// made by TLC (StoreTrace.tla) on the small cases; for big files the driver reduces both sides to their difference
// as multisets of (key, value) pairs and TLC requires that difference to be empty.

import (
	"bufio"
	"bytes"
	"encoding/hex"
	"encoding/json"
	"flag"
	"fmt"
	"math/rand"
	"os"
	"path/filepath"
	"sort"
	"strings"
	"time"

	rocksdb "github.com/facebookincubator/dns/dnsrocks/cgo-rocksdb"
	"github.com/facebookincubator/dns/dnsrocks/dnsdata"
	"github.com/facebookincubator/dns/dnsrocks/dnsdata/cdb"
	"github.com/facebookincubator/dns/dnsrocks/dnsdata/rdb"
	gocdb "github.com/repustate/go-cdb"

	"verifharness/internal/hx"
)

func init() { register("store", storeMain) }

type storeSetting struct {
	Name     string `json:"name"`
	Kind     string `json:"kind"` // cdb | rdb
	Builder  bool   `json:"builder"`
	NumCPU   int    `json:"numcpu"`
	Batch    int    `json:"batch"`
	Parallel int    `json:"parallel"`
	V2       bool   `json:"v2"`
}

type storeIn struct {
	Ev        string         `json:"ev"`
	ID        int            `json:"id"`
	Text      string         `json:"text"`
	Texts     []string       `json:"texts"`
	Diff      string         `json:"diff"`
	Serial    uint32         `json:"serial"`
	Settings  []storeSetting `json:"settings"`
	Detail    bool           `json:"detail"`
	V2        bool           `json:"v2"`
	Order     string         `json:"order"`
	Tag       string         `json:"tag"`
	AllowFail bool           `json:"allowfail"`
}

// bag: key -> values (each as printable string via hx.VRep), insertion order kept
type storeBag map[string][]string

func bagAdd(b storeBag, k, v []byte) { b[hx.VRep(k)] = append(b[hx.VRep(k)], hx.VRep(v)) }

func bagSize(b storeBag) int {
	n := 0
	for _, v := range b {
		n += len(v)
	}
	return n
}

// bagDiff returns up to max (key, value) pairs that are in a but not in b (as multisets)
func bagDiff(a, b storeBag, max int) [][2]string {
	out := [][2]string{}
	for k, va := range a {
		cnt := map[string]int{}
		for _, v := range b[k] {
			cnt[v]++
		}
		for _, v := range va {
			if cnt[v] > 0 {
				cnt[v]--
				continue
			}
			if len(out) < max {
				out = append(out, [2]string{k, v})
			} else {
				return out
			}
		}
	}
	sort.Slice(out, func(i, j int) bool { return out[i][0]+out[i][1] < out[j][0]+out[j][1] })
	return out
}

func storeLines(text string) [][]byte {
	out := [][]byte{}
	sc := bufio.NewScanner(strings.NewReader(text))
	sc.Buffer(make([]byte, 1<<20), 1<<26)
	for sc.Scan() {
		line := bytes.TrimLeft(sc.Bytes(), " ")
		if len(line) < 2 || bytes.HasPrefix(line, []byte("#")) {
			continue
		}
		out = append(out, append([]byte{}, line...))
	}
	return out
}

func storeCodec(kind string, v2 bool, serial uint32) *dnsdata.Codec {
	c := new(dnsdata.Codec)
	c.Serial = serial
	if kind == "rdb" {
		c.Acc.Ranger.Enable()
		c.Acc.NoPrefixSets = true
		c.NoRnetOutput = true
		c.Features.UseV2Keys = v2
	}
	return c
}

// storeReference: what the sequential line-by-line codec emits for the file, plus accumulator and feature records
func storeReference(text, kind string, v2 bool, serial uint32) (storeBag, error) {
	c := storeCodec(kind, v2, serial)
	b := storeBag{}
	for _, ln := range storeLines(text) {
		recs, err := c.ConvertLn(ln)
		if err != nil {
			return nil, fmt.Errorf("line %q: %w", string(ln), err)
		}
		for _, r := range recs {
			bagAdd(b, r.Key, r.Value)
		}
	}
	recs, err := c.Acc.MarshalMap()
	if err != nil {
		return nil, err
	}
	for _, r := range recs {
		bagAdd(b, r.Key, r.Value)
	}
	recs, err = c.Features.MarshalMap()
	if err != nil {
		return nil, err
	}
	for _, r := range recs {
		bagAdd(b, r.Key, r.Value)
	}
	return b, nil
}

func storeDumpRDB(dir string) (storeBag, error) {
	opts := rocksdb.NewOptions()
	db, err := rocksdb.OpenDatabase(dir, true, false, opts)
	if err != nil {
		opts.FreeOptions()
		return nil, err
	}
	// the database owns the options from here on (CloseDatabase frees them)
	defer db.CloseDatabase()
	ro := rocksdb.NewDefaultReadOptions()
	defer ro.FreeReadOptions()
	it := db.CreateIterator(ro)
	defer it.FreeIterator()
	b := storeBag{}
	for it.SeekToFirst(); it.IsValid(); it.Next() {
		k := append([]byte{}, it.Key()...)
		data := append([]byte{}, it.Value()...)
		if len(data) == 0 {
			b[hx.VRep(k)] = append(b[hx.VRep(k)], "!empty-multivalue")
		}
		for len(data) > 0 {
			chunk, rest, err := rdb.ReadNextChunk(data)
			if err != nil {
				b[hx.VRep(k)] = append(b[hx.VRep(k)], "!corrupt:"+hex.EncodeToString(data))
				break
			}
			bagAdd(b, k, chunk)
			data = rest
		}
	}
	if err := it.GetError(); err != nil {
		return nil, err
	}
	return b, nil
}

func storeDumpCDB(path string) (storeBag, error) {
	c, err := gocdb.Open(path)
	if err != nil {
		return nil, err
	}
	defer c.Close()
	b := storeBag{}
	err = c.ForEachKeys(func(_ uint32, key, value []byte) { bagAdd(b, key, value) })
	return b, err
}

func storeWrite(dir, name, text string, serial uint32) string {
	p := filepath.Join(dir, name)
	if err := os.WriteFile(p, []byte(text), 0o644); err != nil {
		hx.Die("%v", err)
	}
	mt := time.Unix(int64(serial), 0)
	os.Chtimes(p, mt, mt)
	return p
}

func storeCompile(src, dir string, s storeSetting) (storeBag, error) {
	if s.Kind == "cdb" {
		out := filepath.Join(dir, "out-"+s.Name+".cdb")
		if _, err := cdb.CreateCDB(src, out, &cdb.CreatorOptions{NumCPU: s.NumCPU}); err != nil {
			return nil, err
		}
		b, err := storeDumpCDB(out)
		os.Remove(out)
		if err != nil {
			return nil, fmt.Errorf("dump: %w", err)
		}
		return b, nil
	}
	out := filepath.Join(dir, "out-"+s.Name)
	os.MkdirAll(out, 0o755)
	defer os.RemoveAll(out)
	par := s.Parallel
	if par <= 0 {
		par = 1
	}
	co := rdb.CompilationOptions{NumCPU: s.NumCPU, UseV2KeySyntax: s.V2, UseBuilder: s.Builder, BatchNumParallel: par, BatchSize: s.Batch}
	if _, err := rdb.CompileToSpecificRDBVersion(src, out, co); err != nil {
		return nil, err
	}
	b, err := storeDumpRDB(out)
	if err != nil {
		return nil, fmt.Errorf("dump: %w", err)
	}
	return b, nil
}

func errText(err error) string {
	if err == nil {
		return ""
	}
	return err.Error()
}

// storeReport: the two sides as TLC will compare them
func storeReport(base map[string]interface{}, ref, got storeBag, detail bool) map[string]interface{} {
	base["refn"] = bagSize(ref)
	base["gotn"] = bagSize(got)
	base["refkeys"] = len(ref)
	base["gotkeys"] = len(got)
	base["missing"] = bagDiff(ref, got, 20)
	base["extra"] = bagDiff(got, ref, 20)
	if detail && bagSize(ref) <= 400 && bagSize(got) <= 400 {
		base["ref"] = ref
		base["got"] = got
		base["full"] = true
	} else {
		base["ref"] = storeBag{}
		base["got"] = storeBag{}
		base["full"] = false
	}
	return base
}

func storePreprocess(text string, kind string, v2 bool, serial uint32) (string, error) {
	c := storeCodec(kind, v2, serial)
	var out bytes.Buffer
	if err := c.Preprocess(strings.NewReader(text), &out); err != nil {
		return "", err
	}
	return out.String(), nil
}

// storeLineDiff: "-line" for lines of a that b lacks, "+line" for lines of b that a lacks (as multisets of lines)
func storeLineDiff(a, b string) []string {
	cnt := map[string]int{}
	la, lb := storeLines(a), storeLines(b)
	for _, l := range lb {
		cnt[string(l)]++
	}
	out := []string{}
	for _, l := range la {
		if cnt[string(l)] > 0 {
			cnt[string(l)]--
		} else {
			out = append(out, "-"+string(l))
		}
	}
	cnt = map[string]int{}
	for _, l := range la {
		cnt[string(l)]++
	}
	for _, l := range lb {
		if cnt[string(l)] > 0 {
			cnt[string(l)]--
		} else {
			out = append(out, "+"+string(l))
		}
	}
	return out
}

func storeMain(args []string) {
	fs := flag.NewFlagSet("store", flag.ExitOnError)
	in := fs.String("in", "", "input ndjson")
	out := fs.String("out", "trace.ndjson", "output ndjson")
	fs.Parse(args)
	wr := hx.NewWriter(*out)
	defer wr.Close()
	rng := hx.Rng(707)
	n := 0
	hx.ReadLines(*in, func(line []byte) {
		var e storeIn
		if err := json.Unmarshal(line, &e); err != nil {
			hx.Die("bad input line: %v", err)
		}
		dir := hx.TempDir("vh-store-")
		defer os.RemoveAll(dir)
		switch e.Ev {
		case "compile":
			src := storeWrite(dir, "data.txt", e.Text, e.Serial)
			for _, s := range e.Settings {
				ref, referr := storeReference(e.Text, s.Kind, s.V2, e.Serial)
				got, err := storeCompile(src, dir, s)
				base := map[string]interface{}{"ev": "compile", "id": e.ID, "setting": s.Name, "opts": s, "err": errText(err), "referr": errText(referr), "tag": e.Tag, "allowfail": e.AllowFail}
				if ref == nil {
					ref = storeBag{}
				}
				if got == nil {
					got = storeBag{}
				}
				wr.Put(storeReport(base, ref, got, e.Detail))
				n++
			}
		case "preproc":
			// the preprocessed file must compile to the same RocksDB as the original
			pp, perr := storePreprocess(e.Text, "rdb", e.V2, e.Serial)
			s := storeSetting{Name: "pp", Kind: "rdb", NumCPU: 1, Batch: 1000, Parallel: 1, V2: e.V2}
			src := storeWrite(dir, "data.txt", e.Text, e.Serial)
			orig, err1 := storeCompile(src, dir, s)
			var got storeBag
			var err2 error
			if perr == nil {
				src2 := storeWrite(dir, "data.pp.txt", pp, e.Serial)
				got, err2 = storeCompile(src2, dir, s)
			}
			base := map[string]interface{}{"ev": "preproc", "id": e.ID, "v2": e.V2, "err": errText(perr) + errText(err2), "referr": errText(err1), "tag": e.Tag, "pp": pp}
			if orig == nil {
				orig = storeBag{}
			}
			if got == nil {
				got = storeBag{}
			}
			wr.Put(storeReport(base, orig, got, e.Detail))
			n++
		case "diff":
			// compile preprocessed A, then apply the diffs A->B->C..., comparing with a fresh compile of each
			s := storeSetting{Name: "d", Kind: "rdb", NumCPU: 1, Batch: 1000, Parallel: 1, V2: e.V2}
			prev, err := storePreprocess(e.Texts[0], "rdb", e.V2, e.Serial)
			if err != nil {
				hx.Die("preprocess of the base file failed: %v", err)
			}
			dbdir := filepath.Join(dir, "db")
			os.MkdirAll(dbdir, 0o755)
			src := storeWrite(dir, "a.txt", prev, e.Serial)
			co := rdb.CompilationOptions{NumCPU: 1, UseV2KeySyntax: e.V2, BatchNumParallel: 1, BatchSize: 1000}
			if _, err := rdb.CompileToSpecificRDBVersion(src, dbdir, co); err != nil {
				hx.Die("compile of the base file failed: %v", err)
			}
			for step := 1; step < len(e.Texts); step++ {
				next, err := storePreprocess(e.Texts[step], "rdb", e.V2, e.Serial)
				if err != nil {
					hx.Die("preprocess failed: %v", err)
				}
				dl := storeLineDiff(prev, next)
				switch e.Order {
				case "reverse":
					for i, j := 0, len(dl)-1; i < j; i, j = i+1, j-1 {
						dl[i], dl[j] = dl[j], dl[i]
					}
				case "shuffle":
					rand.New(rand.NewSource(rng.Int63())).Shuffle(len(dl), func(i, j int) { dl[i], dl[j] = dl[j], dl[i] })
				}
				dpath := storeWrite(dir, fmt.Sprintf("diff%d.txt", step), strings.Join(dl, "\n")+"\n", e.Serial)
				aerr := rdb.ApplyDiff(dpath, dbdir)
				got, derr := storeDumpRDB(dbdir)
				if derr != nil {
					hx.Die("dump failed: %v", derr)
				}
				src2 := storeWrite(dir, "b.txt", next, e.Serial)
				ref, cerr := storeCompile(src2, dir, s)
				if cerr != nil {
					hx.Die("fresh compile failed: %v", cerr)
				}
				base := map[string]interface{}{"ev": "diff", "id": e.ID, "step": step, "v2": e.V2, "order": e.Order, "err": errText(aerr), "referr": "",
					"ndiff": len(dl), "tag": e.Tag, "diff": strings.Join(dl, "\n")}
				wr.Put(storeReport(base, ref, got, e.Detail))
				n++
				prev = next
			}
		case "baddiff":
			// a diff that cannot be applied: the call must fail and leave the database exactly as it was
			s := storeSetting{Name: "d", Kind: "rdb", NumCPU: 1, Batch: 1000, Parallel: 1, V2: e.V2}
			_ = s
			prev, err := storePreprocess(e.Text, "rdb", e.V2, e.Serial)
			if err != nil {
				hx.Die("preprocess of the base file failed: %v", err)
			}
			dbdir := filepath.Join(dir, "db")
			os.MkdirAll(dbdir, 0o755)
			src := storeWrite(dir, "a.txt", prev, e.Serial)
			co := rdb.CompilationOptions{NumCPU: 1, UseV2KeySyntax: e.V2, BatchNumParallel: 1, BatchSize: 1000}
			if _, err := rdb.CompileToSpecificRDBVersion(src, dbdir, co); err != nil {
				hx.Die("compile of the base file failed: %v", err)
			}
			before, derr := storeDumpRDB(dbdir)
			if derr != nil {
				hx.Die("dump failed: %v", derr)
			}
			dpath := storeWrite(dir, "diff.txt", e.Diff, e.Serial)
			aerr := rdb.ApplyDiff(dpath, dbdir)
			after, derr := storeDumpRDB(dbdir)
			if derr != nil {
				hx.Die("dump failed: %v", derr)
			}
			d := e.Diff
			if len(d) > 300 {
				d = d[:300] + "..."
			}
			base := map[string]interface{}{"ev": "baddiff", "id": e.ID, "v2": e.V2, "err": errText(aerr), "referr": "", "tag": e.Tag, "diff": d}
			wr.Put(storeReport(base, before, after, e.Detail))
			n++
		default:
			hx.Die("unknown event %q", e.Ev)
		}
		os.RemoveAll(dir)
	})
	b, _ := json.Marshal(map[string]int{"lines": n})
	fmt.Println(string(b))
}
