package main

// C15 driver: runs operation histories on a real RocksDB through the rdb package and records, after
// every operation, the error class and the content of every key of the history's alphabet.
// Histories come from TLC (MVStoreGen, file of JSON arrays) and from a seeded random generator.

import (
	"encoding/json"
	"errors"
	"flag"
	"fmt"
	"io"
	"math/rand"
	"os"
	"path/filepath"

	"github.com/facebookincubator/dns/dnsrocks/dnsdata/rdb"

	"verifharness/internal/hx"
)

func init() { register("c15", c15Main) }

type c15Op struct {
	Op   string      `json:"op"`
	K    string      `json:"k,omitempty"`
	V    string      `json:"v,omitempty"`
	Adds [][2]string `json:"adds,omitempty"`
	Dels [][2]string `json:"dels,omitempty"`
}

type c15GenStep struct {
	O c15Op `json:"o"`
}

type c15Line struct {
	Ev    string              `json:"ev"`
	H     int                 `json:"h"`
	Op    string              `json:"op,omitempty"`
	K     *string             `json:"k,omitempty"`
	V     *string             `json:"v,omitempty"`
	Adds  *[][2]string        `json:"adds,omitempty"`
	Dels  *[][2]string        `json:"dels,omitempty"`
	Err   string              `json:"err,omitempty"`
	Obs   map[string][]string `json:"obs,omitempty"`
	First map[string][]string `json:"first,omitempty"`
	Src   string              `json:"src,omitempty"`
}

type c15Hist struct {
	keys []string   // alphabet
	ops  []c15Op    // values are raw byte strings carried in Go strings
	src  string
}

func c15Main(args []string) {
	fs := flag.NewFlagSet("c15", flag.ExitOnError)
	histFile := fs.String("hist", "", "ndjson file of TLC-generated histories (arrays of {o:..})")
	out := fs.String("out", "trace.ndjson", "trace output")
	nRandom := fs.Int("random", 0, "number of random histories")
	randLen := fs.Int("len", 30, "length of random histories")
	group := fs.Int("group", 2000, "histories per backup/restore group")
	fs.Parse(args)

	var hists []c15Hist
	if *histFile != "" {
		hx.ReadLines(*histFile, func(line []byte) {
			var steps []c15GenStep
			if err := json.Unmarshal(line, &steps); err != nil {
				hx.Die("bad history line: %v", err)
			}
			h := c15Hist{keys: []string{"k1", "k2"}, src: "tlc"}
			for _, s := range steps {
				h.ops = append(h.ops, s.O)
			}
			hists = append(hists, h)
		})
	}
	rng := hx.Rng(15)
	for i := 0; i < *nRandom; i++ {
		hists = append(hists, c15Random(rng, *randLen))
	}

	w := hx.NewWriter(*out)
	defer w.Close()
	root := hx.TempDir("vh-c15-")
	defer os.RemoveAll(root)

	for g := 0; g*(*group) < len(hists); g++ {
		lo, hi := g*(*group), (g+1)*(*group)
		if hi > len(hists) {
			hi = len(hists)
		}
		c15Group(w, root, g, lo, hists[lo:hi])
	}
	fmt.Printf("{\"histories\":%d,\"lines\":%d}\n", len(hists), w.N)
}

func c15Group(w *hx.Writer, root string, g, base int, hists []c15Hist) {
	dbdir := filepath.Join(root, fmt.Sprintf("db%d", g))
	if err := os.MkdirAll(dbdir, 0o755); err != nil {
		hx.Die("%v", err)
	}
	db, err := rdb.NewRDB(dbdir)
	if err != nil {
		hx.Die("NewRDB: %v", err)
	}
	buffered := make([][]c15Line, len(hists))
	bdir := filepath.Join(root, fmt.Sprintf("bak%d", g))
	rdir := filepath.Join(root, fmt.Sprintf("res%d", g))
	os.MkdirAll(bdir, 0o755)
	os.MkdirAll(rdir, 0o755)
	for i, h := range hists {
		if i == len(hists)-1 && i > 0 {
			// an earlier backup into the same backup directory, taken just before the last history (usually within the
			// same second as the final one): the restore must pick the latest one
			if err := db.Close(); err != nil {
				hx.Die("close: %v", err)
			}
			if err := rdb.Backup(dbdir, bdir); err != nil {
				hx.Die("backup: %v", err)
			}
			if db, err = rdb.NewRDB(dbdir); err != nil {
				hx.Die("reopen: %v", err)
			}
		}
		id := base + i
		pfx := fmt.Sprintf("h%07d/", id)
		lines := []c15Line{{Ev: "reset", H: id, Src: h.src}}
		for _, op := range h.ops {
			ln := c15Line{Ev: "op", H: id, Op: op.Op}
			switch op.Op {
			case "add":
				e := db.Add([]byte(pfx+op.K), []byte(op.V))
				ln.Err = c15Err(e)
				k, v := op.K, hx.VRep([]byte(op.V))
				ln.K, ln.V = &k, &v
			case "del":
				e := db.Del([]byte(pfx+op.K), []byte(op.V))
				ln.Err = c15Err(e)
				k, v := op.K, hx.VRep([]byte(op.V))
				ln.K, ln.V = &k, &v
			case "batch":
				b := db.CreateBatch()
				// interleave adds and dels the way a caller may: the batch must not care
				adds, dels := [][2]string{}, [][2]string{}
				for _, p := range op.Adds {
					b.Add([]byte(pfx+p[0]), []byte(p[1]))
					adds = append(adds, [2]string{p[0], hx.VRep([]byte(p[1]))})
				}
				for _, p := range op.Dels {
					b.Del([]byte(pfx+p[0]), []byte(p[1]))
					dels = append(dels, [2]string{p[0], hx.VRep([]byte(p[1]))})
				}
				e := db.ExecuteBatch(b)
				if e != nil {
					ln.Err = "fail"
				} else {
					ln.Err = "none"
				}
				ln.Adds, ln.Dels = &adds, &dels
			default:
				hx.Die("unknown op %q", op.Op)
			}
			ln.Obs, ln.First = c15Observe(db, pfx, h.keys)
			lines = append(lines, ln)
		}
		buffered[i] = lines
	}
	// backup -> restore into another directory -> read everything back
	if err := db.Close(); err != nil {
		hx.Die("close: %v", err)
	}
	if err := rdb.Backup(dbdir, bdir); err != nil {
		hx.Die("backup: %v", err)
	}
	if err := rdb.Restore(rdir, bdir); err != nil {
		hx.Die("restore: %v", err)
	}
	rdbi, err := rdb.NewRDB(rdir)
	if err != nil {
		hx.Die("open restored: %v", err)
	}
	for i, h := range hists {
		id := base + i
		pfx := fmt.Sprintf("h%07d/", id)
		obs, _ := c15Observe(rdbi, pfx, h.keys)
		for _, ln := range buffered[i] {
			w.Put(ln)
		}
		w.Put(c15Line{Ev: "restored", H: id, Obs: obs})
	}
	rdbi.Close()
	os.RemoveAll(dbdir)
	os.RemoveAll(bdir)
	os.RemoveAll(rdir)
}

func c15Err(e error) string {
	switch {
	case e == nil:
		return "none"
	case errors.Is(e, rdb.ErrNXKey):
		return "nxkey"
	case errors.Is(e, rdb.ErrNXVal):
		return "nxval"
	}
	return "other"
}

func c15Observe(db *rdb.RDB, pfx string, keys []string) (map[string][]string, map[string][]string) {
	obs := map[string][]string{}
	first := map[string][]string{}
	for _, k := range keys {
		vals := []string{}
		err := db.ForEach([]byte(pfx+k), func(v []byte) error {
			vals = append(vals, hx.VRep(v))
			return nil
		}, rdb.NewContext())
		if err != nil {
			vals = append(vals, "ERR:"+err.Error())
		}
		obs[k] = vals
		f, err := db.Find([]byte(pfx+k), rdb.NewContext())
		switch {
		case err == nil:
			first[k] = []string{hx.VRep(f)}
		case errors.Is(err, io.EOF):
			first[k] = []string{}
		default:
			first[k] = []string{"ERR:" + err.Error()}
		}
	}
	return obs, first
}

// c15Random builds one random history: small key alphabet, a value pool with the empty value,
// prefix-related values, equal-length values, values that look like length prefixes and long values.
func c15Random(rng *rand.Rand, n int) c15Hist {
	nk := 1 + rng.Intn(4)
	keys := make([]string, nk)
	for i := range keys {
		keys[i] = []string{"k", "k\x00", "kk", "", "k\x00\x00"}[i]
	}
	pool := []string{"", "a", "ab", "abc", "b", "\x00", "\x00\x00\x00\x00", "\x01\x00\x00\x00a", "\x04\x00\x00\x00"}
	if rng.Intn(2) == 0 {
		big := make([]byte, 1000+rng.Intn(70000))
		rng.Read(big)
		pool = append(pool, string(big), string(big[:len(big)-1]))
	}
	h := c15Hist{keys: keys, src: "random"}
	// shadow model only to bias generation towards interesting deletes; not used for verdicts
	shadow := map[string][]string{}
	pickPair := func(existing bool) [2]string {
		k := keys[rng.Intn(nk)]
		if existing && len(shadow[k]) > 0 {
			return [2]string{k, shadow[k][rng.Intn(len(shadow[k]))]}
		}
		return [2]string{k, pool[rng.Intn(len(pool))]}
	}
	for i := 0; i < n; i++ {
		switch r := rng.Intn(10); {
		case r < 4:
			p := pickPair(false)
			h.ops = append(h.ops, c15Op{Op: "add", K: p[0], V: p[1]})
			shadow[p[0]] = append(shadow[p[0]], p[1])
		case r < 7:
			p := pickPair(rng.Intn(4) != 0)
			h.ops = append(h.ops, c15Op{Op: "del", K: p[0], V: p[1]})
		default:
			op := c15Op{Op: "batch"}
			na, nd := rng.Intn(5), rng.Intn(5)
			if rng.Intn(3) == 0 { // deletions only, several per key, keys interleaved
				na, nd = 0, 3+rng.Intn(4)
			}
			for j := 0; j < na; j++ {
				op.Adds = append(op.Adds, pickPair(false))
			}
			for j := 0; j < nd; j++ {
				if len(op.Adds) > 0 && rng.Intn(3) == 0 {
					op.Dels = append(op.Dels, op.Adds[rng.Intn(len(op.Adds))]) // delete what the same batch adds
				} else {
					op.Dels = append(op.Dels, pickPair(rng.Intn(5) != 0))
				}
			}
			if len(op.Adds)+len(op.Dels) == 0 {
				op.Adds = append(op.Adds, pickPair(false))
			}
			h.ops = append(h.ops, op)
			for _, p := range op.Adds {
				shadow[p[0]] = append(shadow[p[0]], p[1])
			}
		}
	}
	return h
}
