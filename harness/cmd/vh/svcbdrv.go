package main

// svcb: driver of C18. Every case is the text of a SVCB/HTTPS parameter list; the driver runs the REAL
// svcb.ParamList FromText / ToWire / ToText (and FromText / ToWire again on the printed text) and lets an independent
// decoder - miekg/dns - unpack a full HTTPS record built around the wire data.  TLC (SvcbTrace.tla) judges.

import (
	"bytes"
	"encoding/json"
	"flag"
	"fmt"

	"github.com/miekg/dns"

	"github.com/facebookincubator/dns/dnsrocks/dnsdata/svcb"

	"verifharness/internal/hx"
)

func init() { register("svcb", svcbMain) }

type svcbIn struct {
	IDs  []int  `json:"ids"`
	Text string `json:"text"`
}

type svcbDec struct {
	Key int     `json:"key"`
	Sem [][]int `json:"sem"`
}

func svcbDecode(wire []byte) ([]svcbDec, string) {
	// owner "h." type HTTPS class IN ttl 60, rdata = priority 1, target ".", params
	rd := append([]byte{0, 1, 0}, wire...)
	msg := []byte{1, 'h', 0, 0, 65, 0, 1, 0, 0, 0, 60, byte(len(rd) >> 8), byte(len(rd))}
	msg = append(msg, rd...)
	rr, _, err := dns.UnpackRR(msg, 0)
	if err != nil {
		return []svcbDec{}, err.Error()
	}
	h, ok := rr.(*dns.HTTPS)
	if !ok {
		return []svcbDec{}, fmt.Sprintf("decoded as %T", rr)
	}
	out := []svcbDec{}
	for _, kv := range h.Value {
		d := svcbDec{Key: int(kv.Key()), Sem: [][]int{}}
		switch v := kv.(type) {
		case *dns.SVCBMandatory:
			for _, k := range v.Code {
				d.Sem = append(d.Sem, []int{int(k)})
			}
		case *dns.SVCBAlpn:
			for _, a := range v.Alpn {
				d.Sem = append(d.Sem, ints([]byte(a)))
			}
		case *dns.SVCBNoDefaultAlpn:
		case *dns.SVCBPort:
			d.Sem = append(d.Sem, []int{int(v.Port >> 8), int(v.Port & 255)})
		case *dns.SVCBIPv4Hint:
			for _, ip := range v.Hint {
				if ip4 := ip.To4(); ip4 != nil {
					d.Sem = append(d.Sem, ints(ip4))
				} else {
					d.Sem = append(d.Sem, ints(ip))
				}
			}
		case *dns.SVCBECHConfig:
			d.Sem = append(d.Sem, ints(v.ECH))
		case *dns.SVCBIPv6Hint:
			for _, ip := range v.Hint {
				d.Sem = append(d.Sem, ints(ip.To16()))
			}
		default:
			return out, fmt.Sprintf("unexpected key type %T", kv)
		}
		out = append(out, d)
	}
	return out, ""
}

// svcbEmit: ToWire / ToText / reparse / independent decoder for an already parsed list
func svcbEmit(out map[string]interface{}, pl *svcb.ParamList) {
	var w bytes.Buffer
	if err := pl.ToWire(&w); err != nil {
		out["err"] = "towire: " + err.Error()
	}
	out["wire"] = ints(w.Bytes())
	var t bytes.Buffer
	pl.ToText(&t)
	out["retext"] = t.String()
	var pl2 svcb.ParamList
	if err := pl2.FromText(t.Bytes()); err != nil {
		out["reerr"] = err.Error()
	} else {
		var w2 bytes.Buffer
		pl2.ToWire(&w2)
		out["rewire"] = ints(w2.Bytes())
	}
	dec, derr := svcbDecode(w.Bytes())
	out["decoded"] = dec
	out["decerr"] = derr
}

func svcbMain(args []string) {
	fs := flag.NewFlagSet("svcb", flag.ExitOnError)
	in := fs.String("in", "", "input ndjson")
	outp := fs.String("out", "trace.ndjson", "output ndjson")
	deferred := fs.Int("deferred", 0, "also run every case a second time in chunks of this size: parse the whole chunk first, emit afterwards")
	fs.Parse(args)
	wr := hx.NewWriter(*outp)
	defer wr.Close()
	n := 0
	var cases []svcbIn
	hx.ReadLines(*in, func(line []byte) {
		var e svcbIn
		if err := json.Unmarshal(line, &e); err != nil {
			hx.Die("bad input line: %v", err)
		}
		cases = append(cases, e)
	})
	blank := func(e svcbIn, mode string) map[string]interface{} {
		return map[string]interface{}{"ev": "svcb", "mode": mode, "ids": e.IDs, "text": e.Text, "accepted": false, "err": "", "wire": []int{}, "rewire": []int{}, "reerr": "",
			"retext": "", "decoded": []svcbDec{}, "decerr": ""}
	}
	guard := func(out map[string]interface{}, f func()) {
		defer func() {
			if p := recover(); p != nil {
				out["err"] = fmt.Sprintf("panic: %v", p)
				out["accepted"] = true // a panic is not a rejection: let the judge see a broken acceptance
				out["reerr"] = fmt.Sprintf("panic: %v", p)
			}
		}()
		f()
	}
	for _, e := range cases {
		e := e
		n++
		out := blank(e, "immediate")
		guard(out, func() {
			var pl svcb.ParamList
			if err := pl.FromText([]byte(e.Text)); err != nil {
				out["err"] = err.Error()
				return
			}
			out["accepted"] = true
			svcbEmit(out, &pl)
		})
		wr.Put(out)
	}
	// the order of a decode-everything-then-marshal pipeline: a list must still hold its own values when it is
	// emitted after other lists were compiled
	for i := 0; *deferred > 0 && i < len(cases); i += *deferred {
		j := i + *deferred
		if j > len(cases) {
			j = len(cases)
		}
		pls := make([]*svcb.ParamList, j-i)
		outs := make([]map[string]interface{}, j-i)
		for k, e := range cases[i:j] {
			outs[k] = blank(e, "deferred")
			k, e := k, e
			guard(outs[k], func() {
				pl := new(svcb.ParamList)
				if err := pl.FromText([]byte(e.Text)); err != nil {
					outs[k]["err"] = err.Error()
					return
				}
				outs[k]["accepted"] = true
				pls[k] = pl
			})
		}
		for k := range pls {
			if pls[k] != nil {
				k := k
				guard(outs[k], func() { svcbEmit(outs[k], pls[k]) })
			}
			wr.Put(outs[k])
			n++
		}
	}
	fmt.Printf("{\"cases\":%d}\n", n)
}
