package main

// quote: driver of C17. For byte strings s it records q = quote.Bquote(s) and u = quote.Bunquote(q), and (field
// mode) puts s into a real data-file line - as TXT text, as an owner-name label, as a target-name label - lets the
// real codec decode the line, re-serialise it (MarshalText) and decode that again, and records whether both lines
// compile to the same keys and values.  TLC (QuoteTrace.tla) judges the lines against the escape grammar.
//
// -mode exhaustive -maxlen N : every byte string of length <= N
// -mode random -n K          : structured random strings (valid / invalid UTF-8, controls, backslash and quote runs,
//                               separators, digits after escapes)

import (
	"bytes"
	"encoding"
	"encoding/json"
	"flag"
	"fmt"
	"math/rand"
	"sort"

	"github.com/facebookincubator/dns/dnsrocks/dnsdata"
	"github.com/facebookincubator/dns/dnsrocks/dnsdata/quote"

	"verifharness/internal/hx"
)

func init() { register("quote", quoteMain) }

func ints(b []byte) []int {
	o := make([]int, len(b))
	for i, x := range b {
		o[i] = int(x)
	}
	return o
}

var quotePieces = [][]byte{
	[]byte("é"), {0xC2, 0x80}, {0xC2, 0xA0}, {0xC2, 0xAD}, {0xC3, 0xBF}, {0xDF, 0xBF}, {0xE0, 0xA0, 0x80}, {0xEF, 0xBF, 0xBD}, {0xEF, 0xBF, 0xBF},
	{0xF0, 0x90, 0x80, 0x80}, {0xF4, 0x8F, 0xBF, 0xBF}, {0xE2, 0x80, 0x8B},
	{0xC0, 0x80}, {0xED, 0xA0, 0x80}, {0xF4, 0x90, 0x80, 0x80}, {0x80}, {0xBF}, {0xE2, 0x82}, {0xFF}, {0xFE}, {0xC2},
	{0}, {1}, {7}, {8}, {9}, {10}, {11}, {12}, {13}, {27}, {31}, {127},
	[]byte("\\"), []byte("\\\\"), []byte("\""), []byte("'"), []byte("\\\""), []byte("\\n"), []byte("\\054"), []byte("\\x2c"), []byte("\\u002c"),
	[]byte(","), []byte(":"), []byte(",1"), []byte(":7"), []byte(",,"), []byte("::"), []byte("\n"), []byte(" "), []byte("."), []byte("*"),
	[]byte("a"), []byte("Z"), []byte("0"), []byte("7"), []byte("9"), []byte("x41"), []byte("u0041"), []byte("-"), []byte("_"), []byte("="), []byte("->"),
}

func quoteRandom(rng *rand.Rand) []byte {
	n := 1 + rng.Intn(8)
	var b []byte
	for i := 0; i < n; i++ {
		if rng.Intn(6) == 0 {
			b = append(b, byte(rng.Intn(256)))
		} else {
			b = append(b, quotePieces[rng.Intn(len(quotePieces))]...)
		}
	}
	return b
}

func quoteOne(wr *hx.Writer, s []byte) {
	q := quote.Bquote(append([]byte{}, s...))
	u, err := quote.Bunquote(append([]byte{}, q...))
	e := ""
	if err != nil {
		e = err.Error()
	}
	wr.Put(map[string]interface{}{"ev": "q", "s": ints(s), "q": ints(q), "u": ints(u), "err": e})
}

func recsOf(c *dnsdata.Codec, line []byte) (string, error) {
	recs, err := c.ConvertLn(line)
	if err != nil {
		return "", err
	}
	l := []string{}
	for _, r := range recs {
		l = append(l, hx.VRep(r.Key)+"="+hx.VRep(r.Value))
	}
	sort.Strings(l)
	return fmt.Sprint(l), nil
}

// quoteField: s inside a real line; same = (line and its re-serialisation compile alike) and the re-serialisation is stable
func quoteField(wr *hx.Writer, kind string, s []byte) {
	var line []byte
	switch kind {
	case "txt":
		line = append([]byte("'t.q.example,"), quote.Bquote(s)...)
		line = append(line, []byte(",60")...)
	case "name":
		line = append([]byte("+"), quote.Bquote(s)...)
		line = append(line, []byte(".n.q.example,192.0.2.1,60")...)
	case "target":
		line = append([]byte("Cc.q.example,"), quote.Bquote(s)...)
		line = append(line, []byte(".t.q.example,60")...)
	}
	out := map[string]interface{}{"ev": "field", "kind": kind, "s": ints(s), "line": string(line), "text": "", "same": false, "payload": false, "err": ""}
	c := new(dnsdata.Codec)
	c.Serial = 1
	want, err := recsOf(c, line)
	if err != nil {
		out["err"] = "original line: " + err.Error()
		wr.Put(out)
		return
	}
	out["payload"] = quotePayload(c, kind, line, s)
	r, err := c.DecodeLn(line)
	if err != nil {
		out["err"] = err.Error()
		wr.Put(out)
		return
	}
	t1, err := r.(encoding.TextMarshaler).MarshalText()
	if err != nil {
		out["err"] = "marshal: " + err.Error()
		wr.Put(out)
		return
	}
	out["text"] = string(t1)
	got, err := recsOf(c, t1)
	if err != nil {
		out["err"] = "re-serialised line: " + err.Error()
		wr.Put(out)
		return
	}
	r2, err := c.DecodeLn(t1)
	if err != nil {
		out["err"] = err.Error()
		wr.Put(out)
		return
	}
	t2, _ := r2.(encoding.TextMarshaler).MarshalText()
	out["same"] = want == got && bytes.Equal(t1, t2)
	wr.Put(out)
}

// lines: round trip of whole data-file lines (C09): text -> DecodeLn -> MarshalText = t1 -> DecodeLn -> MarshalText = t2
func init() { register("lines", linesMain) }

func linesMain(args []string) {
	fs := flag.NewFlagSet("lines", flag.ExitOnError)
	in := fs.String("in", "", "input ndjson: {\"text\": line}")
	outp := fs.String("out", "trace.ndjson", "output ndjson")
	fs.Parse(args)
	wr := hx.NewWriter(*outp)
	defer wr.Close()
	n := 0
	hx.ReadLines(*in, func(raw []byte) {
		var e struct {
			Text string `json:"text"`
			Tag  string `json:"tag"`
		}
		if err := json.Unmarshal(raw, &e); err != nil {
			hx.Die("bad input line: %v", err)
		}
		n++
		out := map[string]interface{}{"ev": "line", "text": e.Text, "tag": e.Tag, "t1": "", "t2": "", "t1c": "", "same": false, "err": ""}
		func() {
			defer func() {
				if p := recover(); p != nil {
					out["err"] = fmt.Sprintf("panic: %v", p)
				}
			}()
			c := new(dnsdata.Codec)
			c.Serial = 1700000000
			c.Acc.Ranger.Enable()
			line := []byte(e.Text)
			want, err := recsOf(c, line)
			if err != nil {
				out["err"] = "original line: " + err.Error()
				return
			}
			r, err := c.DecodeLn(line)
			if err != nil {
				out["err"] = err.Error()
				return
			}
			t1, err := r.(encoding.TextMarshaler).MarshalText()
			if err != nil {
				out["err"] = "marshal: " + err.Error()
				return
			}
			out["t1"] = string(t1)
			got, err := recsOf(c, t1)
			if err != nil {
				out["err"] = "normal form: " + err.Error()
				return
			}
			r2, err := c.DecodeLn(t1)
			if err != nil {
				out["err"] = "normal form: " + err.Error()
				return
			}
			t2, err := r2.(encoding.TextMarshaler).MarshalText()
			if err != nil {
				out["err"] = "marshal of the normal form: " + err.Error()
				return
			}
			out["t2"] = string(t2)
			out["same"] = want == got
			// compile first, then re-serialise the SAME record object
			r3, err := c.DecodeLn(line)
			if err != nil {
				out["err"] = err.Error()
				return
			}
			if mm, ok := r3.(dnsdata.MapMarshaler); ok {
				if _, err := mm.MarshalMap(); err != nil {
					out["err"] = "marshalmap: " + err.Error()
					return
				}
			}
			t1c, err := r3.(encoding.TextMarshaler).MarshalText()
			if err != nil {
				out["err"] = "marshal after compile: " + err.Error()
				return
			}
			out["t1c"] = string(t1c)
		}()
		wr.Put(out)
	})
	fmt.Printf("{\"lines\":%d}\n", n)
}

// quotePayload: does the compiled record hold the bytes s themselves?  txt: the value ends with s cut into
// character-strings of at most 127 bytes and nothing else follows the record head (head length taken from a
// reference record); name: the key holds the lower-cased label; target: the value holds the label as written.
func quotePayload(c *dnsdata.Codec, kind string, line, s []byte) bool {
	recs, err := c.ConvertLn(line)
	if err != nil || len(recs) == 0 {
		return false
	}
	lab := append([]byte{byte(len(s))}, s...)
	switch kind {
	case "txt":
		ref, err := c.ConvertLn([]byte("'t.q.example,x,60"))
		if err != nil || len(ref) != 1 {
			return false
		}
		head := len(ref[0].Value) - 2
		var chunks []byte
		for i := 0; i < len(s); i += 127 {
			j := i + 127
			if j > len(s) {
				j = len(s)
			}
			chunks = append(chunks, byte(j-i))
			chunks = append(chunks, s[i:j]...)
		}
		v := recs[0].Value
		return len(v) == head+len(chunks) && bytes.Equal(v[head:], chunks)
	}
	// names: judged for ASCII labels only (how bytes >= 0x80 are case-folded in keys is not the quoting's business)
	low := append([]byte{}, lab...)
	for i, b := range low {
		if i > 0 && b >= 0x80 {
			return true
		}
		if i > 0 && b >= 'A' && b <= 'Z' {
			low[i] = b + 32
		}
	}
	if kind == "name" {
		return bytes.Contains(recs[0].Key, low)
	}
	return bytes.Contains(recs[0].Value, lab)
}

func labelOK(s []byte) bool {
	// a label: 1..63 bytes, no '.', and not something the line syntax gives another meaning ("*" wildcard marker)
	if len(s) == 0 || len(s) > 63 || bytes.IndexByte(s, '.') >= 0 {
		return false
	}
	return !(len(s) == 1 && s[0] == '*')
}

func quoteMain(args []string) {
	fs := flag.NewFlagSet("quote", flag.ExitOnError)
	outp := fs.String("out", "trace.ndjson", "output ndjson")
	mode := fs.String("mode", "random", "exhaustive | random")
	maxlen := fs.Int("maxlen", 1, "exhaustive: maximal length")
	n := fs.Int("n", 1000, "random: number of strings")
	sample := fs.Int("sample2", 0, "exhaustive: additionally this many random strings of length maxlen+1")
	fields := fs.Int("fields", 4, "every k-th string also goes through the field round trip (0 = never)")
	fs.Parse(args)
	wr := hx.NewWriter(*outp)
	defer wr.Close()
	rng := hx.Rng(1717)
	cnt := 0
	do := func(s []byte) {
		quoteOne(wr, s)
		cnt++
		if *fields > 0 && cnt%*fields == 0 {
			quoteField(wr, "txt", s)
			if labelOK(s) {
				quoteField(wr, "name", s)
				quoteField(wr, "target", s)
			}
		}
	}
	switch *mode {
	case "exhaustive":
		var rec func(prefix []byte, left int)
		rec = func(prefix []byte, left int) {
			do(prefix)
			if left == 0 {
				return
			}
			for b := 0; b < 256; b++ {
				rec(append(append([]byte{}, prefix...), byte(b)), left-1)
			}
		}
		rec([]byte{}, *maxlen)
		for i := 0; i < *sample; i++ {
			s := make([]byte, *maxlen+1)
			rng.Read(s)
			do(s)
		}
	default:
		for i := 0; i < *n; i++ {
			do(quoteRandom(rng))
		}
	}
	fmt.Printf("{\"strings\":%d,\"lines\":%d}\n", cnt, wr.N)
}
