// vh is the Go side of the /verif conformance harness: one sub-command per property driver.
// Drivers only run the real code and record what it did; verdicts are made by TLC on the traces.
package main

import (
	"flag"
	"fmt"
	"io"
	"log"
	"os"
	"sort"
)

type driver func(args []string)

var drivers = map[string]driver{}

func register(name string, d driver) { drivers[name] = d }

func main() {
	// glog (used by the code under test) registers flags on the default set; keep it quiet
	if os.Getenv("VH_GLOG") != "" {
		flag.CommandLine.Parse([]string{"-logtostderr=true"})
	} else {
		flag.CommandLine.Parse([]string{"-logtostderr=false", "-stderrthreshold=FATAL"})
	}
	if os.Getenv("VH_VERBOSE") == "" {
		log.SetOutput(io.Discard) // the code under test logs through the standard logger
	}
	if len(os.Args) < 2 {
		usage()
	}
	d, ok := drivers[os.Args[1]]
	if !ok {
		usage()
	}
	d(os.Args[2:])
}

func usage() {
	names := make([]string, 0, len(drivers))
	for n := range drivers {
		names = append(names, n)
	}
	sort.Strings(names)
	fmt.Fprintln(os.Stderr, "usage: vh <driver> [flags]; drivers:", names)
	os.Exit(3)
}
