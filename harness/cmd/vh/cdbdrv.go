package main

// cdb: driver of C16. Every case is a sequence of (key, value) pairs written with the REAL go-cdb-mods writer
// (NewWriter / Put / Close) and read back with the REAL reader (Open / FindStart / FindNext until EOF), plus
// Dump -> Make and a byte comparison with the original file.
//
// Input (ndjson, -in):
//   {"ev":"case","pairs":[[k,v],..],"probe":[k..]}      k, v as hx strings: "x<hex>"
//   {"ev":"gen","kind":"size","n":N}                     N pairs with pseudo-random keys (several values per key)
//   {"ev":"gen","kind":"collide","n":N}                  keys searched so that they share table and start slot
//   {"ev":"gen","kind":"lengths","klen":K,"vlen":V,"n":N}  key / value lengths around an I/O buffer boundary
// Output: one line per case with the observed value list of every distinct key (and of keys never written).

import (
	"bytes"
	"encoding/hex"
	"encoding/json"
	"errors"
	"flag"
	"fmt"
	"io"
	"math/rand"
	"os"
	"path/filepath"
	"strings"

	spooky "github.com/dgryski/go-spooky"
	gocdb "github.com/repustate/go-cdb"

	"verifharness/internal/hx"
)

func init() { register("cdb", cdbMain) }

type cdbIn struct {
	Ev    string      `json:"ev"`
	Pairs [][2]string `json:"pairs"`
	Probe []string    `json:"probe"`
	Kind  string      `json:"kind"`
	N     int         `json:"n"`
	Klen  int         `json:"klen"`
	Vlen  int         `json:"vlen"`
	Tag   string      `json:"tag"`
}

func unrep(s string) []byte {
	if strings.HasPrefix(s, "x") {
		b, err := hex.DecodeString(s[1:])
		if err == nil {
			return b
		}
	}
	hx.Die("bad byte string %q", s)
	return nil
}

func xrep(b []byte) string { return "x" + hex.EncodeToString(b) }

type kv struct{ k, v []byte }

// cdbLookupAll: every value FindNext yields for key until EOF; sticky: a further call after EOF still says EOF
func cdbLookupAll(c *gocdb.Cdb, key []byte) (vals [][]byte, sticky bool, err error) {
	ctx := gocdb.NewContext()
	c.FindStart(ctx)
	for i := 0; ; i++ {
		v, e := c.FindNext(key, ctx)
		if errors.Is(e, io.EOF) {
			break
		}
		if e != nil {
			return vals, false, e
		}
		vals = append(vals, append([]byte{}, v...))
		if i > 1000000 {
			return vals, false, fmt.Errorf("lookup does not end")
		}
	}
	_, e := c.FindNext(key, ctx)
	return vals, errors.Is(e, io.EOF), nil
}

var cdbSrc int // index of the input line the current cases come from

func cdbRun(wr *hx.Writer, pairs []kv, probe [][]byte, tag string, full bool) {
	dir := hx.TempDir("vh-cdb-")
	defer os.RemoveAll(dir)
	out := map[string]interface{}{"ev": "case", "tag": tag, "src": cdbSrc, "n": len(pairs), "full": full, "err": "", "badkeys": []string{}, "eof_sticky": true, "dumpmake": "skipped",
		"pairs": [][2]string{}, "lookups": map[string][]string{}, "absent": map[string][]string{}}
	fail := func(format string, a ...interface{}) {
		out["err"] = fmt.Sprintf(format, a...)
		wr.Put(out)
	}
	path := filepath.Join(dir, "t.cdb")
	w, err := gocdb.NewWriter(path)
	if err != nil {
		fail("NewWriter: %v", err)
		return
	}
	want := map[string][][]byte{}
	order := []string{}
	for _, p := range pairs {
		if err := w.Put(p.k, p.v); err != nil {
			fail("Put: %v", err)
			return
		}
		if _, ok := want[string(p.k)]; !ok {
			order = append(order, string(p.k))
		}
		want[string(p.k)] = append(want[string(p.k)], p.v)
	}
	if err := w.Close(); err != nil {
		fail("Close: %v", err)
		return
	}
	c, err := gocdb.Open(path)
	if err != nil {
		fail("Open: %v", err)
		return
	}
	defer c.Close()
	lookups := map[string][]string{}
	bad := []string{}
	sticky := true
	for _, k := range order {
		vals, st, err := cdbLookupAll(c, []byte(k))
		if err != nil {
			fail("lookup: %v", err)
			return
		}
		sticky = sticky && st
		same := len(vals) == len(want[k])
		for i := 0; same && i < len(vals); i++ {
			same = bytes.Equal(vals[i], want[k][i])
		}
		if !same && len(bad) < 20 {
			bad = append(bad, xrep([]byte(k)))
		}
		if full {
			l := []string{}
			for _, v := range vals {
				l = append(l, xrep(v))
			}
			lookups[xrep([]byte(k))] = l
		}
	}
	absent := map[string][]string{}
	for _, k := range probe {
		if _, ok := want[string(k)]; ok {
			continue
		}
		vals, st, err := cdbLookupAll(c, k)
		if err != nil {
			fail("lookup: %v", err)
			return
		}
		sticky = sticky && st
		l := []string{}
		for _, v := range vals {
			l = append(l, xrep(v))
		}
		absent[xrep(k)] = l
	}
	// ForEachKeys must enumerate exactly the pairs written (as a multiset; it walks the hash tables, not the data)
	cnt := map[string]int{}
	for _, p := range pairs {
		cnt[string(p.k)+"\x00->"+string(p.v)]++
	}
	okEnum := true
	c.ForEachKeys(func(_ uint32, key, value []byte) {
		k := string(key) + "\x00->" + string(value)
		cnt[k]--
		if cnt[k] < 0 {
			okEnum = false
		}
	})
	for _, v := range cnt {
		if v != 0 {
			okEnum = false
		}
	}
	if !okEnum && len(bad) < 20 {
		bad = append(bad, "enumeration")
	}
	// Dump -> Make reproduces the file
	dm := "same"
	orig, _ := os.ReadFile(path)
	var dump bytes.Buffer
	if err := gocdb.Dump(&dump, bytes.NewReader(orig)); err != nil {
		dm = "error: dump: " + err.Error()
	} else {
		p2 := filepath.Join(dir, "t2.cdb")
		f, _ := os.Create(p2)
		err := gocdb.Make(f, bytes.NewReader(dump.Bytes()))
		f.Close()
		if err != nil {
			dm = "error: make: " + err.Error()
		} else if b2, _ := os.ReadFile(p2); !bytes.Equal(b2, orig) {
			dm = "differs"
		}
	}
	if full {
		ps := [][2]string{}
		for _, p := range pairs {
			ps = append(ps, [2]string{xrep(p.k), xrep(p.v)})
		}
		out["pairs"] = ps
	}
	out["lookups"] = lookups
	out["absent"] = absent
	out["badkeys"] = bad
	out["eof_sticky"] = sticky
	out["dumpmake"] = dm
	wr.Put(out)
}

// cdbCollide searches n keys that land in the same table and, for a table of 2n slots, on the same start slot
func cdbCollide(rng *rand.Rand, n int) [][]byte {
	nslots := uint32(2 * n)
	var out [][]byte
	var tbl, slot uint32
	for i := 0; len(out) < n && i < 50000000; i++ {
		k := []byte(fmt.Sprintf("c%d-%d", rng.Intn(1000), i))
		h := spooky.Hash32(k)
		if len(out) == 0 {
			tbl, slot = h%256, (h>>8)%nslots
			// aim at the last slot so that the chain wraps around the table end
			if slot != nslots-1 {
				continue
			}
			out = append(out, k)
			continue
		}
		if h%256 == tbl && (h>>8)%nslots == slot {
			out = append(out, k)
		}
	}
	return out
}

func cdbMain(args []string) {
	fs := flag.NewFlagSet("cdb", flag.ExitOnError)
	in := fs.String("in", "", "input ndjson")
	outp := fs.String("out", "trace.ndjson", "output ndjson")
	fs.Parse(args)
	wr := hx.NewWriter(*outp)
	defer wr.Close()
	rng := hx.Rng(1616)
	n := 0
	hx.ReadLines(*in, func(line []byte) {
		var e cdbIn
		if err := json.Unmarshal(line, &e); err != nil {
			hx.Die("bad input line: %v", err)
		}
		cdbSrc = n
		n++
		switch e.Ev {
		case "case":
			var pairs []kv
			for _, p := range e.Pairs {
				pairs = append(pairs, kv{unrep(p[0]), unrep(p[1])})
			}
			var probe [][]byte
			for _, k := range e.Probe {
				probe = append(probe, unrep(k))
			}
			cdbRun(wr, pairs, probe, e.Tag, true)
		case "gen":
			var pairs []kv
			probe := [][]byte{[]byte("never-written"), {}, []byte("k0x")}
			switch e.Kind {
			case "size":
				for i := 0; i < e.N; i++ {
					k := []byte(fmt.Sprintf("k%d", rng.Intn(e.N/2+1)))
					v := []byte(fmt.Sprintf("v%d", i))
					if rng.Intn(20) == 0 {
						v = []byte{}
					}
					pairs = append(pairs, kv{k, v})
				}
			case "collide":
				keys := cdbCollide(rng, e.N)
				for r := 0; r < 2; r++ {
					for i, k := range keys {
						pairs = append(pairs, kv{k, []byte(fmt.Sprintf("v%d-%d", r, i))})
					}
				}
				// keys of the same table that were not written
				for i := 0; len(probe) < 40 && i < 10000000; i++ {
					k := []byte(fmt.Sprintf("p%d", i))
					if len(keys) > 0 && spooky.Hash32(k)%256 == spooky.Hash32(keys[0])%256 {
						probe = append(probe, k)
					}
				}
			case "prefixcollide":
				// a stored key that extends the looked-up key (and vice versa) with the SAME 32-bit hash: only the stored
				// key length tells them apart
				base := fmt.Sprintf("pk%d-%d", hx.Seed(), e.N)
				long := cdbFullCollisions(base, 1)[0]
				suffix := long[len(base):]
				cdbRun(wr, []kv{{[]byte(long), []byte("L1")}, {[]byte(long), []byte("L2")}}, [][]byte{[]byte(base)}, e.Tag+"-longer-stored", true)
				cdbRun(wr, []kv{{[]byte(base), []byte(suffix + "tail")}}, [][]byte{[]byte(long), []byte(base + suffix[:3])}, e.Tag+"-key-value-bytes", true)
				pairs = []kv{{[]byte(base), []byte("B1")}, {[]byte(long), []byte("L1")}, {[]byte(base), []byte("B2")}, {[]byte(long), []byte("L2")}}
			case "lengths":
				for i := 0; i < e.N; i++ {
					k := bytes.Repeat([]byte{byte('a' + i%26)}, e.Klen+i%3)
					v := bytes.Repeat([]byte{byte('A' + i%26)}, e.Vlen+i)
					pairs = append(pairs, kv{k, v})
				}
			default:
				hx.Die("unknown kind %q", e.Kind)
			}
			cdbRun(wr, pairs, probe, e.Tag, len(pairs) <= 60)
		default:
			hx.Die("unknown event %q", e.Ev)
		}
	})
	b, _ := json.Marshal(map[string]int{"cases": n})
	fmt.Println(string(b))
}

// cdbsearch: brute-force search for keys "<base><8 hex digits>" whose full 32-bit SpookyHash equals that of <base>
// (a stored key that extends the looked-up key and collides with it in all 32 bits).
func init() { register("cdbsearch", cdbSearchMain) }

func cdbSearchMain(args []string) {
	fs := flag.NewFlagSet("cdbsearch", flag.ExitOnError)
	base := fs.String("base", "key", "base key")
	want := fs.Int("n", 1, "collisions wanted")
	fs.Parse(args)
	for _, k := range cdbFullCollisions(*base, *want) {
		fmt.Println(k)
	}
}

// cdbFullCollisions returns n keys "<base><10 hex digits>" with spooky.Hash32(key) == spooky.Hash32(base)
func cdbFullCollisions(base string, n int) []string {
	const workers = 16
	target := spooky.Hash32([]byte(base))
	found := make(chan string, 64)
	stop := make(chan struct{})
	for w := 0; w < workers; w++ {
		go func(w int) {
			buf := []byte(base + "0000000000")
			nb := len(base)
			const hexd = "0123456789abcdef"
			for i := uint64(w); i < 1<<38; i += workers {
				if i&0xfffff == uint64(w) {
					select {
					case <-stop:
						return
					default:
					}
				}
				for j := 0; j < 10; j++ {
					buf[nb+j] = hexd[(i>>(36-4*uint(j)))&15]
				}
				if spooky.Hash32(buf) == target {
					found <- string(buf)
				}
			}
		}(w)
	}
	out := []string{}
	for len(out) < n {
		out = append(out, <-found)
	}
	close(stop)
	return out
}
