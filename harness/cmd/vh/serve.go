package main

// Serving / reloading drivers (C05 C06 C12 C14).
//
//   vh serve-replay -in schedules.ndjson -out trace.ndjson
//       executes TLC-generated behaviours of spec/Serve.tla on a real dnsserver.FBDNSDB whose storage
//       backend is the instrumented in-memory DBI (internal/sim): goroutines of the real code are parked
//       at public seams (Stats, ResponseWriter, DBI calls) and released one model action at a time.
//   vh serve-stress -out trace.ndjson -backend sim-rdb|sim-cdb|cdb|rdb -dur 3s
//       free-running stress: N query workers x reloader x stats reporter x final shutdown, events with a
//       global sequence number.
// Both write the observation log that spec/ServeObs.tla validates.

import (
	"context"
	"encoding/json"
	"errors"
	"flag"
	"fmt"
	"os"
	"strings"
	"sync"
	"sync/atomic"
	"time"

	"github.com/miekg/dns"

	"github.com/facebookincubator/dns/dnsrocks/db"
	"github.com/facebookincubator/dns/dnsrocks/dnsserver"

	"verifharness/internal/hx"
	"verifharness/internal/sim"
)

func init() {
	register("serve-replay", serveReplayMain)
}

type srvScenario struct {
	ID    int             `json:"id"`
	Kind  string          `json:"kind"`
	Cache bool            `json:"cache"`
	Bad   []int           `json:"badgens"`
	Steps [][]interface{} `json:"steps"`
	// what the model predicts (drift statistics only, never a verdict)
	ExpectBad  []string `json:"bad"`
	ExpectOpen []int    `json:"open"`
	Src        string   `json:"src"`
	// environment faults outside the model
	CleanupFails bool `json:"cleanup_fails"`
}

const reloadTimeout = 120 * time.Millisecond
const stepWait = 3 * time.Second

func pathName(p int) string { return fmt.Sprintf("p%d", p) }

func serveReplayMain(args []string) {
	fs := flag.NewFlagSet("serve-replay", flag.ExitOnError)
	in := fs.String("in", "", "schedules (ndjson)")
	out := fs.String("out", "trace.ndjson", "event log")
	par := fs.Int("par", 8, "scenarios run concurrently")
	fs.Parse(args)
	w := hx.NewWriter(*out)
	defer w.Close()
	n, infeasible, steps := 0, 0, 0
	var scs []srvScenario
	hx.ReadLines(*in, func(line []byte) {
		var sc srvScenario
		if err := json.Unmarshal(line, &sc); err != nil {
			hx.Die("bad scenario: %v", err)
		}
		scs = append(scs, sc)
	})
	// scenarios are independent worlds: run several at a time (most of the wall time is reload timeouts)
	var mu sync.Mutex
	var wg sync.WaitGroup
	next := int32(-1)
	for k := 0; k < *par; k++ {
		wg.Add(1)
		go func() {
			defer wg.Done()
			for {
				i := int(atomic.AddInt32(&next, 1))
				if i >= len(scs) {
					return
				}
				r := runScenario(scs[i], w)
				mu.Lock()
				n++
				steps += r.steps
				if r.infeasible != "" {
					infeasible++
				}
				mu.Unlock()
			}
		}()
	}
	wg.Wait()
	fmt.Printf("{\"scenarios\":%d,\"infeasible\":%d,\"steps\":%d,\"lines\":%d}\n", n, infeasible, steps, w.N)
}

type scenResult struct {
	steps      int
	infeasible string
}

type srvExec struct {
	sc      srvScenario
	w       *sim.World
	s       *sim.Sched
	h       *dnsserver.FBDNSDB
	stats   *sim.Stats
	qcmd    map[int]chan struct{}
	rcmd    chan dnsserver.ReloadSignal
	rid     int32 // id of the reload call in progress (0 = none)
	rcalls  int32
	qn      int32
	wg      sync.WaitGroup
	stopped int32
	isShut  bool
}

func runScenario(sc srvScenario, out *hx.Writer) scenResult {
	w := sim.NewWorld(sc.Kind)
	for _, g := range sc.Bad {
		w.BadGens[g] = true
	}
	w.Disk["p1"] = 1
	s := sim.NewSched()
	w.Sched = s
	w.Log(sim.Event{Ev: "scenario", ID: sc.ID, Kind: sc.Kind, Note: sc.Src + " expect_bad=" + strings.Join(sc.ExpectBad, "+"), Hit: sim.Bool(sc.Cache)})
	b0, err := w.OpenBackend("p1")
	if err != nil {
		hx.Die("%v", err)
	}
	stats := sim.NewStats(w)
	control := ""
	var tmp string
	if sc.CleanupFails {
		// ControlPath below a regular file: removing <ControlPath>/switchdb fails with ENOTDIR
		tmp = hx.TempDir("vh-ctl-")
		os.WriteFile(tmp+"/file", []byte("x"), 0o644)
		control = tmp + "/file/ctl"
	}
	h, err := dnsserver.NewFBDNSDBBasic(dnsserver.HandlerConfig{},
		dnsserver.DBConfig{Path: "p1", Driver: "sim", ReloadTimeout: reloadTimeout, ValidationKey: sim.ValidationKey(), ControlPath: control},
		dnsserver.CacheConfig{Enabled: sc.Cache, LRUSize: 64}, &sim.Logger{W: w}, stats)
	if err != nil {
		hx.Die("%v", err)
	}
	h.SetDBForVerif(db.NewDBFromDBIForVerif(b0))
	x := &srvExec{sc: sc, w: w, s: s, h: h, stats: stats, qcmd: map[int]chan struct{}{}, rcmd: make(chan dnsserver.ReloadSignal)}
	x.wg.Add(1)
	go x.reloader()

	res := scenResult{}
	for i, st := range sc.Steps {
		ok, note := x.step(st)
		res.steps++
		if !ok {
			res.infeasible = fmt.Sprintf("step %d %v: %s", i, st, note)
			w.Log(sim.Event{Ev: "drift", Note: res.infeasible})
			break
		}
	}
	// let everything run to completion
	atomic.StoreInt32(&x.stopped, 1)
	w.Sched = nil
	s.ReleaseAll()
	for _, c := range x.qcmd {
		close(c)
	}
	close(x.rcmd)
	done := make(chan struct{})
	go func() { x.wg.Wait(); close(done) }()
	select {
	case <-done:
	case <-time.After(5 * time.Second):
		// keep releasing: goroutines may have parked after ReleaseAll raced with them
		s.ReleaseAll()
		select {
		case <-done:
		case <-time.After(5 * time.Second):
			w.Log(sim.Event{Ev: "hang", Note: "workers did not finish: " + strings.Join(s.Trace[max0(len(s.Trace)-6):], " ")})
		}
	}
	// stragglers (reload goroutines of timed-out reloads) finish on their own
	time.Sleep(2 * time.Millisecond)
	shut := x.shut()
	served := 0
	if !shut {
		served = x.servedBackend()
	}
	w.Log(sim.Event{Ev: "quiesce", Open: sim.Ints(w.OpenIDs()), Served: served, Shut: sim.Bool(shut)})
	block := make([]interface{}, 0, len(w.Events))
	for _, e := range w.Events {
		block = append(block, e)
	}
	out.PutAll(block)
	if tmp != "" {
		os.RemoveAll(tmp)
	}
	return res
}

func max0(a int) int {
	if a < 0 {
		return 0
	}
	return a
}

func (x *srvExec) shut() bool { return x.isShut }

// servedBackend asks the handler which backend it serves through the public stats path.
func (x *srvExec) servedBackend() int {
	x.stats.Served = 0
	done := make(chan struct{})
	go func() { x.h.ReportBackendStats(); close(done) }()
	select {
	case <-done:
	case <-time.After(2 * time.Second):
		return -1
	}
	return int(x.stats.Served)
}

func (x *srvExec) qworker(p int, cmd chan struct{}) {
	defer x.wg.Done()
	proc := fmt.Sprintf("q%d", p)
	x.w.Register(proc)
	defer x.w.Unregister()
	for range cmd {
		qid := int(atomic.AddInt32(&x.qn, 1))
		x.w.Log(sim.Event{Ev: "qstart", Q: qid, Client: proc})
		serveOne(x.h, x.w, x.stats, proc, qid, dns.TypeMX, "z.test.")
		x.w.Log(sim.Event{Ev: "qdone", Q: qid, Client: proc})
		x.s.Finished(proc)
	}
}

// serveOne sends one query through the real handler and logs the response.
func serveOne(h *dnsserver.FBDNSDB, w *sim.World, stats *sim.Stats, proc string, qid int, qtype uint16, name string) {
	req := new(dns.Msg)
	req.SetQuestion(name, qtype)
	wr := &sim.Writer{W: w}
	wr.OnMsg = func(m *dns.Msg) {
		hit := false
		for _, k := range stats.Take(proc) {
			if k == "DNS_cache.hit" {
				hit = true
			}
		}
		st := sim.StampsOf(m)
		w.Log(sim.Event{Ev: "qresp", Q: qid, Client: proc, Stamps: &st, Hit: sim.Bool(hit), Rcode: m.Rcode, Qtype: dns.TypeToString[qtype]})
	}
	func() {
		defer func() {
			if e := recover(); e != nil {
				w.Log(sim.Event{Ev: "panic", Q: qid, Note: fmt.Sprint(e)})
			}
		}()
		h.ServeDNS(context.Background(), wr, req)
	}()
	if wr.Msg == nil {
		w.Log(sim.Event{Ev: "noresp", Q: qid, Client: proc})
	}
}

func (x *srvExec) reloader() {
	defer x.wg.Done()
	x.w.Register("r")
	defer x.w.Unregister()
	for sig := range x.rcmd {
		id := int(atomic.AddInt32(&x.rcalls, 1))
		kind := "full"
		if sig.Kind == dnsserver.PartialReload {
			kind = "part"
		}
		atomic.StoreInt32(&x.rid, int32(id))
		x.w.Log(sim.Event{Ev: "rcall", ID: id, Kind: kind, Path: sig.Payload})
		err := x.h.Reload(sig)
		x.w.Log(sim.Event{Ev: "rret", ID: id, Ok: sim.Bool(reloadOK(err)), Err: reloadErrClass(err)})
		atomic.StoreInt32(&x.rid, 0)
		x.s.Finished("r")
	}
}

// a reload whose only failure is the removal of the control file has switched databases: for the
// generation properties it counts as a successful switch (see DESIGN.md, C05)
func reloadOK(err error) bool { return err == nil || reloadErrClass(err) == "cleanup" }

func reloadErrClass(err error) string {
	switch {
	case err == nil:
		return ""
	case errors.Is(err, db.ErrReloadTimeout):
		return "timeout"
	case errors.Is(err, db.ErrValidationKeyNotFound):
		return "validation"
	case strings.Contains(err.Error(), "nothing published"), strings.Contains(err.Error(), "no such file"), strings.Contains(err.Error(), "does not exist"):
		return "open"
	case strings.Contains(err.Error(), "not a directory"), strings.Contains(err.Error(), "unlinkat"), strings.Contains(err.Error(), "remove"):
		return "cleanup"
	}
	return "other:" + err.Error()
}

func num(v interface{}) int {
	switch t := v.(type) {
	case float64:
		return int(t)
	case int:
		return t
	case string:
		var n int
		fmt.Sscan(t, &n)
		return n
	}
	return 0
}

// step executes one model action; false = the real code could not follow (model drift / infeasible)
func (x *srvExec) step(st []interface{}) (bool, string) {
	act, _ := st[0].(string)
	switch act {
	case "Publish":
		x.w.Publish(pathName(num(st[1])), num(st[2]))
		return true, ""
	case "QStart":
		p := num(st[1])
		proc := fmt.Sprintf("q%d", p)
		if x.qcmd[p] == nil {
			x.qcmd[p] = make(chan struct{})
			x.wg.Add(1)
			go x.qworker(p, x.qcmd[p])
		}
		before := x.s.DoneCount(proc)
		x.qcmd[p] <- struct{}{}
		pt, ok := x.s.Wait(proc, before, stepWait)
		return ok && pt == "stat:DNS_queries", "parked at '" + pt + "'"
	case "QAcquire", "QLookup", "QRead1", "QRead2", "QInsert", "QWrite", "QRelease":
		p := num(st[1])
		proc := fmt.Sprintf("q%d", p)
		before := x.s.DoneCount(proc)
		if x.s.ParkedAt(proc) == "write" && (act == "QRead1" || act == "QRead2" || act == "QInsert") {
			return true, "" // answered from the cache: the computing steps do not exist in this execution
		}
		if !x.s.Release(proc) {
			return false, "not parked"
		}
		pt, ok := x.s.Wait(proc, before, stepWait)
		if !ok {
			return false, "did not reach the next seam"
		}
		want := map[string][]string{"QAcquire": {"stat:DNS_query.MX"}, "QLookup": {"stat:DNS_response.authoritative", "write"},
			"QRead1": {"dbi:enter:extra"}, "QRead2": {"dbi:exit:extra"}, "QInsert": {"write"}, "QWrite": {"free"}, "QRelease": {""}}[act]
		for _, wpt := range want {
			if pt == wpt {
				return true, ""
			}
		}
		return false, "parked at '" + pt + "', wanted " + strings.Join(want, "|")
	case "RStart":
		kind, _ := st[1].(string)
		path := pathName(num(st[2]))
		n := x.w.ReloadCount() + 1
		sig := *dnsserver.NewFullReloadSignal(path)
		if kind == "part" {
			sig = *dnsserver.NewPartialReloadSignal()
		}
		x.rcmd <- sig
		pt, ok := x.s.Wait(fmt.Sprintf("g%d", n), 0, stepWait)
		return ok && pt == "g:enter", "goroutine parked at '" + pt + "'"
	case "GWork":
		proc := fmt.Sprintf("g%d", num(st[1]))
		if !x.s.Release(proc) {
			return false, "not parked"
		}
		pt, ok := x.s.Wait(proc, 0, stepWait)
		return ok && pt == "g:exit", "parked at '" + pt + "'"
	case "GFinish":
		n := num(st[1])
		proc := fmt.Sprintf("g%d", n)
		active := int(atomic.LoadInt32(&x.rid)) != 0 && x.s.ParkedAt("r") == "" && x.w.ReloadCount() == n
		before := x.s.DoneCount("r")
		if !x.s.Release(proc) {
			return false, "not parked"
		}
		if active {
			if _, ok := x.s.Wait("r", before, stepWait); !ok {
				return false, "reloader did not continue after the goroutine finished"
			}
		} else {
			time.Sleep(3 * time.Millisecond)
		}
		return true, ""
	case "RTimeout":
		before := x.s.DoneCount("r")
		pt, ok := x.s.Wait("r", before, reloadTimeout+stepWait)
		return ok && pt == "stat:DNS_db.ErrReloadTimeout", "parked at '" + pt + "'"
	case "RDone":
		return true, ""
	case "RValidate":
		if x.s.ParkedAt("r") != "dbi:enter:valkey" {
			return false, "reloader at '" + x.s.ParkedAt("r") + "'"
		}
		before := x.s.DoneCount("r")
		x.s.Release("r")
		pt, ok := x.s.Wait("r", before, stepWait)
		return ok && (pt == "free" || pt == "stat:DNS_db.ErrValidationKeyNotFound"), "parked at '" + pt + "'"
	case "RInstall":
		if x.s.ParkedAt("r") != "free" {
			return false, "reloader at '" + x.s.ParkedAt("r") + "'"
		}
		before := x.s.DoneCount("r")
		x.s.Release("r")
		pt, ok := x.s.Wait("r", before, stepWait)
		return ok && (pt == "stat:DNS_db.reload" || (pt == "" && x.sc.CleanupFails)), "parked at '" + pt + "'"
	case "RUnlock":
		before := x.s.DoneCount("r")
		if x.s.ParkedAt("r") == "" {
			// open errors and cleanup failures return without passing a seam
			return atomic.LoadInt32(&x.rid) == 0, "reload still running but not parked"
		}
		// the failure paths pass one or two more seams (validation reader release, error counter)
		pt, ok := "", true
		for i := 0; i < 4; i++ {
			x.s.Release("r")
			pt, ok = x.s.Wait("r", before, stepWait)
			if !ok || pt == "" {
				break
			}
		}
		return ok && pt == "", "parked at '" + pt + "'"
	case "Shutdown":
		done := make(chan struct{})
		go func() {
			x.w.Register("shutdown")
			x.w.Log(sim.Event{Ev: "shutdown"})
			x.h.Close()
			x.w.Unregister()
			close(done)
		}()
		select {
		case <-done:
			x.isShut = true
			return true, ""
		case <-time.After(stepWait):
			return false, "Close() did not return"
		}
	case "PinRelease":
		return true, ""
	}
	return false, "unknown action " + act
}
