package main

// window: driver of the sampled-metric half of C19. K real sliding windows (metrics.NewWindowForVerif, lifetime
// 1.5 s, the real 1 s cleaner) get samples on different schedules for a few seconds while their Samples() are
// polled; every call is bracketed by timestamps. Then N goroutines x M updates on a real metrics.Stats.
// Nothing is judged here: SlidingWindowTrace.tla does that.

import (
	"flag"
	"fmt"
	"math/rand"
	"sort"
	"sync"
	"time"

	"github.com/facebookincubator/dns/dnsrocks/metrics"

	"verifharness/internal/hx"
)

func init() { register("window", windowMain) }

func windowMain(args []string) {
	fs := flag.NewFlagSet("window", flag.ExitOnError)
	outp := fs.String("out", "trace.ndjson", "output ndjson")
	k := fs.Int("windows", 40, "number of windows")
	dur := fs.Int("ms", 6000, "duration in ms")
	life := fs.Int("life", 1500, "sample lifetime in ms")
	fs.Parse(args)
	wr := hx.NewWriter(*outp)
	defer wr.Close()
	start := time.Now()
	ms := func() int64 { return time.Since(start).Milliseconds() }
	us := func() int64 { return time.Since(start).Microseconds() }
	var wg sync.WaitGroup
	var mu sync.Mutex
	events := []map[string]interface{}{}
	put := func(e map[string]interface{}) {
		mu.Lock()
		events = append(events, e)
		mu.Unlock()
	}
	for i := 0; i < *k; i++ {
		w, err := metrics.NewWindowForVerif(time.Duration(*life) * time.Millisecond)
		if err != nil {
			hx.Die("%v", err)
		}
		rng := rand.New(rand.NewSource(hx.Seed()*7919 + int64(i)))
		// schedule: bursts and gaps, so that live and expired samples coexist at cleaner ticks
		var sched []int64
		t := int64(rng.Intn(300))
		for t < int64(*dur)-200 {
			sched = append(sched, t)
			switch rng.Intn(5) {
			case 0:
				t += int64(1 + rng.Intn(20))
			case 1:
				t += int64(900 + rng.Intn(400))
			case 2:
				t += int64(1600 + rng.Intn(900))
			default:
				t += int64(100 + rng.Intn(500))
			}
		}
		wg.Add(2)
		go func(i int, w *metrics.WindowForVerif, sched []int64) { // adder
			defer wg.Done()
			for n, at := range sched {
				if d := at - ms(); d > 0 {
					time.Sleep(time.Duration(d) * time.Millisecond)
				}
				t0 := us()
				w.Add(int64(n + 1))
				t1 := us()
				put(map[string]interface{}{"ev": "add", "w": i, "v": n + 1, "t0": t0, "t1": t1})
			}
		}(i, w, sched)
		go func(i int, w *metrics.WindowForVerif) { // observer
			defer wg.Done()
			defer w.StopForVerif()
			for ms() < int64(*dur) {
				t0 := us()
				vals := w.Samples()
				t1 := us()
				put(map[string]interface{}{"ev": "obs", "w": i, "t0": t0, "t1": t1, "vals": vals})
				time.Sleep(time.Duration(40+i%30) * time.Millisecond)
			}
		}(i, w)
	}
	// hot windows: several adders at a high pace, so that an Add lands inside the cleaner's critical path at every
	// tick. Too many events for a full trace: the driver keeps (value, add-start, add-end) and reduces each observation
	// to "how many samples that must be reported are missing / how many values that were never added are reported".
	const hotWindows = 4
	for h := 0; h < hotWindows; h++ {
		w, err := metrics.NewWindowForVerif(time.Duration(*life) * time.Millisecond)
		if err != nil {
			hx.Die("%v", err)
		}
		type add struct{ t0, t1 int64 }
		var amu sync.Mutex
		adds := map[int64]add{}
		var seq int64
		stop := make(chan struct{})
		var awg sync.WaitGroup
		for a := 0; a < 4; a++ {
			awg.Add(1)
			go func() {
				defer awg.Done()
				for {
					select {
					case <-stop:
						return
					default:
					}
					amu.Lock()
					seq++
					v := seq
					amu.Unlock()
					t0 := us()
					w.Add(v)
					t1 := us()
					amu.Lock()
					adds[v] = add{t0, t1}
					amu.Unlock()
					time.Sleep(150 * time.Microsecond)
				}
			}()
		}
		wg.Add(1)
		go func(h int, w *metrics.WindowForVerif) {
			defer wg.Done()
			defer w.StopForVerif()
			const eps = 200000
			lifeUs := int64(*life) * 1000
			for ms() < int64(*dur) {
				time.Sleep(230 * time.Millisecond)
				t0 := us()
				vals := w.Samples()
				t1 := us()
				got := map[int64]bool{}
				for _, v := range vals {
					got[v] = true
				}
				amu.Lock()
				must, missing, spurious := 0, 0, 0
				for v, a := range adds {
					if a.t1 < t0 && a.t0+lifeUs > t1+eps {
						must++
						if !got[v] {
							missing++
						}
					}
				}
				for v := range got {
					if _, ok := adds[v]; !ok && v > seq {
						spurious++
					}
				}
				amu.Unlock()
				put(map[string]interface{}{"ev": "hotobs", "w": 1000 + h, "t0": t0, "t1": t1, "reported": len(vals), "must": must, "missing": missing, "spurious": spurious})
			}
			close(stop)
			awg.Wait()
		}(h, w)
	}
	wg.Wait()
	// order: by the moment the call RETURNED (adds first on ties), so that the judge knows every add that had returned
	sort.SliceStable(events, func(a, b int) bool {
		ta, tb := events[a]["t1"].(int64), events[b]["t1"].(int64)
		if ta != tb {
			return ta < tb
		}
		return events[a]["ev"].(string) < events[b]["ev"].(string)
	})
	for _, e := range events {
		wr.Put(e)
	}
	// concurrent counter updates and sample additions on the real Stats
	for round, nm := range [][2]int{{8, 2000}, {16, 500}, {32, 100}} {
		n, m := nm[0], nm[1]
		st := metrics.NewStats()
		var g sync.WaitGroup
		var sum int64
		for w := 0; w < n; w++ {
			g.Add(1)
			go func(w int) {
				defer g.Done()
				for j := 0; j < m; j++ {
					st.IncrementCounter("c")
					st.AddSample(fmt.Sprintf("s%d", round), int64(1000*w+j+1))
				}
			}(w)
		}
		for w := 0; w < n; w++ {
			for j := 0; j < m; j++ {
				sum += int64(1000*w + j + 1)
			}
		}
		g.Wait()
		got := st.Get()
		key := fmt.Sprintf("s%d", round)
		// first samples of fresh keys, added by all goroutines at the same moment: every one of them must be kept
		bad := 0
		const fresh = 300
		for kx := 0; kx < fresh; kx++ {
			fk := fmt.Sprintf("f%d-%d", round, kx)
			gate := make(chan struct{})
			var g2 sync.WaitGroup
			for w := 0; w < n; w++ {
				g2.Add(1)
				go func(w int) {
					defer g2.Done()
					<-gate
					st.AddSample(fk, int64(w+1))
				}(w)
			}
			close(gate)
			g2.Wait()
		}
		got2 := st.Get()
		for kx := 0; kx < fresh; kx++ {
			fk := fmt.Sprintf("f%d-%d", round, kx)
			if got2[fk+".min"] != 1 || got2[fk+".max"] != int64(n) || got2[fk+".avg"] != int64(n*(n+1)/2/n) {
				bad++
			}
		}
		wr.Put(map[string]interface{}{"ev": "stats", "n": n, "m": m, "counter": got["c"], "min": got[key+".min"], "max": got[key+".max"], "avg": got[key+".avg"],
			"expmin": 1, "expmax": 1000*(n-1) + m, "expsum": sum, "expcount": n * m, "freshkeys": fresh, "badfreshkeys": bad})
	}
	fmt.Printf("{\"events\":%d}\n", wr.N)
}
