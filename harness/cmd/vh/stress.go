package main

// vh serve-stress: free-running stress of serving + reloading + statistics reporting + shutdown
// (C14, and free-running traces for C05 / C06 / C12).  Backends: the instrumented in-memory DBI in its
// CDB-like and RocksDB-like flavours, a real CDB file, a real RocksDB (v1 or v2 keys) opened as secondary of
// a primary that is updated with ApplyDiff.  Built with -race for C14.

import (
	"context"
	"flag"
	"fmt"
	"math/rand"
	"os"
	"path/filepath"
	"strings"
	"sync"
	"sync/atomic"
	"time"

	"github.com/miekg/dns"

	"github.com/facebookincubator/dns/dnsrocks/db"
	"github.com/facebookincubator/dns/dnsrocks/dnsdata/cdb"
	"github.com/facebookincubator/dns/dnsrocks/dnsdata/rdb"
	"github.com/facebookincubator/dns/dnsrocks/dnsserver"

	"verifharness/internal/hx"
	"verifharness/internal/sim"
)

func init() { register("serve-stress", serveStressMain) }

func serveStressMain(args []string) {
	fs := flag.NewFlagSet("serve-stress", flag.ExitOnError)
	out := fs.String("out", "trace.ndjson", "event log")
	backend := fs.String("backend", "sim-rdb", "sim-cdb | sim-rdb | cdb | rdb-v1 | rdb-v2")
	dur := fs.Duration("dur", 2*time.Second, "duration")
	workers := fs.Int("workers", 8, "query workers")
	cache := fs.Bool("cache", true, "response cache on")
	partialOnly := fs.Bool("partial-only", false, "only partial reloads")
	id := fs.Int("id", 1, "scenario id")
	hot := fs.Bool("hot", false, "maximum throughput: no per-query events (only backend misuse, panics and hangs are recorded), full reloads back to back")
	fs.Parse(args)

	w := hx.NewWriter(*out)
	defer w.Close()
	rng := hx.Rng(int64(1400 + *id))
	kind := map[string]string{"sim-cdb": "cdb", "sim-rdb": "rdb", "cdb": "real-cdb", "rdb-v1": "real-rdb", "rdb-v2": "real-rdb"}[*backend]
	if kind == "" {
		hx.Die("unknown backend %s", *backend)
	}
	world := sim.NewWorld(strings.TrimPrefix(kind, "real-"))
	world.Jitter = 5
	world.Hot = *hot
	stats := sim.NewStats(world)
	stats.Quiet = *hot
	root := hx.TempDir("vh-stress-")
	defer os.RemoveAll(root)

	env := newStressEnv(*backend, root, world)
	world.Log(sim.Event{Ev: "scenario", ID: *id, Kind: kind, Note: "stress " + *backend, Hit: sim.Bool(*cache), Path: env.path(1)})
	cfg := dnsserver.DBConfig{Path: env.path(1), Driver: env.driver(), ReloadTimeout: stressReloadTimeout(*hot), ValidationKey: sim.ValidationKey()}
	if *backend == "rdb-v2" {
		cfg.ValidationKey = nil // the validation key is a v1 key
	}
	h, err := dnsserver.NewFBDNSDBBasic(dnsserver.HandlerConfig{}, cfg, dnsserver.CacheConfig{Enabled: *cache, LRUSize: 64}, &sim.Logger{W: world}, stats)
	if err != nil {
		hx.Die("%v", err)
	}
	env.publish(1, 1)
	if strings.HasPrefix(*backend, "sim") {
		b0, err := world.OpenBackend(env.path(1))
		if err != nil {
			hx.Die("%v", err)
		}
		h.SetDBForVerif(db.NewDBFromDBIForVerif(b0))
	} else if err := h.Load(); err != nil {
		hx.Die("load: %v", err)
	}

	var stop int32
	var wg sync.WaitGroup
	var qn int32
	qtypes := []struct {
		t    uint16
		name string
	}{{dns.TypeMX, "z.test."}, {dns.TypeA, "www.z.test."}, {dns.TypeTXT, "txt.z.test."}, {dns.TypeTXT, "nx.z.test."}, {dns.TypeMX, "Z.Test."}}
	for i := 1; i <= *workers; i++ {
		wg.Add(1)
		go func(i int) {
			defer wg.Done()
			proc := fmt.Sprintf("q%d", i)
			world.Register(proc)
			defer world.Unregister()
			r := rand.New(rand.NewSource(hx.Seed()*100 + int64(i)))
			for atomic.LoadInt32(&stop) == 0 {
				qt := qtypes[r.Intn(len(qtypes))]
				qid := int(atomic.AddInt32(&qn, 1))
				if *hot {
					serveHot(h, world, qid, qt.t, qt.name)
					continue
				}
				world.Log(sim.Event{Ev: "qstart", Q: qid, Client: proc})
				serveOne(h, world, stats, proc, qid, qt.t, qt.name)
				world.Log(sim.Event{Ev: "qdone", Q: qid, Client: proc})
			}
		}(i)
	}
	// statistics reporter
	wg.Add(1)
	go func() {
		defer wg.Done()
		world.Register("stats")
		defer world.Unregister()
		for atomic.LoadInt32(&stop) == 0 {
			h.ReportBackendStats()
			time.Sleep(200 * time.Microsecond)
		}
	}()
	// reloader
	reloads := 0
	wg.Add(1)
	go func() {
		defer wg.Done()
		world.Register("r")
		defer world.Unregister()
		gen, cur := 1, 1
		for atomic.LoadInt32(&stop) == 0 {
			partial := env.canPartial() && (*partialOnly || rng.Intn(2) == 0)
			target := cur
			if !partial && !*partialOnly {
				target = 3 - cur // the other path
			}
			// hot partial-only stress on a real RocksDB: catch-ups back to back, new data only now and then
			if !(*hot && *partialOnly && reloads%50 != 0) {
				gen++
				env.publish(target, gen)
			}
			sig := *dnsserver.NewFullReloadSignal(env.path(target))
			k := "full"
			if partial {
				sig = *dnsserver.NewPartialReloadSignal()
				k = "part"
			}
			reloads++
			world.Log(sim.Event{Ev: "rcall", ID: reloads, Kind: k, Path: env.path(target)})
			if !strings.HasPrefix(*backend, "sim") {
				world.Log(sim.Event{Ev: "loaded", ID: reloads, Gen: gen, Kind: map[bool]string{true: "catchup", false: "open"}[partial], Path: env.path(target)})
			}
			err := h.Reload(sig)
			world.Log(sim.Event{Ev: "rret", ID: reloads, Ok: sim.Bool(reloadOK(err)), Err: reloadErrClass(err)})
			if err == nil {
				cur = target
			}
			if !*hot {
				time.Sleep(time.Duration(rng.Intn(3000)) * time.Microsecond)
			}
		}
	}()

	// watchdog
	finished := make(chan struct{})
	go func() {
		time.Sleep(*dur)
		atomic.StoreInt32(&stop, 1)
		wg.Wait()
		close(finished)
	}()
	select {
	case <-finished:
	case <-time.After(*dur + 20*time.Second):
		world.Log(sim.Event{Ev: "hang", Note: "workers / reloader did not stop within 20 s after the stress ended"})
		flushStress(world, w)
		fmt.Printf("{\"queries\":%d,\"reloads\":%d,\"hang\":true}\n", qn, reloads)
		os.Exit(0)
	}
	// shutdown with everything quiescent
	closed := make(chan struct{})
	go func() {
		world.Register("shutdown")
		world.Log(sim.Event{Ev: "shutdown"})
		h.Close()
		close(closed)
	}()
	select {
	case <-closed:
	case <-time.After(10 * time.Second):
		world.Log(sim.Event{Ev: "hang", Note: "Close() did not return"})
	}
	if strings.HasPrefix(*backend, "sim") {
		world.Log(sim.Event{Ev: "quiesce", Open: sim.Ints(world.OpenIDs()), Served: 0, Shut: sim.Bool(true)})
	}
	flushStress(world, w)
	fmt.Printf("{\"queries\":%d,\"reloads\":%d,\"hang\":false}\n", qn, reloads)
}

func flushStress(world *sim.World, w *hx.Writer) {
	for _, e := range world.Events {
		w.Put(e)
	}
}

// stressEnv publishes generations for one kind of backend.
type stressEnv struct {
	backend string
	root    string
	w       *sim.World
	lastGen map[int]int // path index -> generation currently there
	v2      bool
}

func newStressEnv(backend, root string, w *sim.World) *stressEnv {
	return &stressEnv{backend: backend, root: root, w: w, lastGen: map[int]int{}, v2: backend == "rdb-v2"}
}

func (e *stressEnv) driver() string {
	switch e.backend {
	case "cdb":
		return "cdb"
	case "rdb-v1", "rdb-v2":
		return "rocksdb"
	}
	return "sim"
}

func (e *stressEnv) canPartial() bool { return e.backend != "cdb" }

func (e *stressEnv) path(i int) string {
	switch e.backend {
	case "cdb":
		return filepath.Join(e.root, fmt.Sprintf("db%d.cdb", i))
	case "rdb-v1", "rdb-v2":
		return filepath.Join(e.root, fmt.Sprintf("rdb%d", i))
	}
	return fmt.Sprintf("p%d", i)
}

func (e *stressEnv) publish(i, g int) {
	defer func() { e.lastGen[i] = g }()
	switch e.backend {
	case "sim-cdb", "sim-rdb":
		e.w.Publish(e.path(i), g)
		return
	case "cdb":
		src := filepath.Join(e.root, "data.txt")
		os.WriteFile(src, []byte(sim.DataText(g, true)), 0o644)
		tmp := e.path(i) + ".tmp"
		if _, err := cdb.CreateCDB(src, tmp, &cdb.CreatorOptions{NumCPU: 1}); err != nil {
			hx.Die("cdb compile: %v", err)
		}
		if err := os.Rename(tmp, e.path(i)); err != nil {
			hx.Die("%v", err)
		}
	case "rdb-v1", "rdb-v2":
		dir := e.path(i)
		if old, ok := e.lastGen[i]; ok {
			// update the primary in place: the serving secondary catches up on partial reload
			diff := filepath.Join(e.root, "diff.txt")
			var b strings.Builder
			for _, l := range strings.Split(strings.TrimSpace(sim.DataText(old, true)), "\n") {
				b.WriteString("-" + l + "\n")
			}
			for _, l := range strings.Split(strings.TrimSpace(sim.DataText(g, true)), "\n") {
				b.WriteString("+" + l + "\n")
			}
			os.WriteFile(diff, []byte(b.String()), 0o644)
			if err := rdb.ApplyDiff(diff, dir); err != nil {
				hx.Die("applydiff: %v", err)
			}
		} else {
			os.MkdirAll(dir, 0o755)
			src := filepath.Join(e.root, "data.txt")
			os.WriteFile(src, []byte(sim.DataText(g, true)), 0o644)
			if _, err := rdb.CompileToSpecificRDBVersion(src, dir, rdb.CompilationOptions{NumCPU: 1, UseV2KeySyntax: e.v2, BatchNumParallel: 1, BatchSize: 1000}); err != nil {
				hx.Die("rdb compile: %v", err)
			}
		}
	}
	e.w.Log(sim.Event{Ev: "publish", Path: e.path(i), Gen: g})
}

// serveHot is the no-bookkeeping query path of the hot stress.
func serveHot(h *dnsserver.FBDNSDB, w *sim.World, qid int, qtype uint16, name string) {
	req := new(dns.Msg)
	req.SetQuestion(name, qtype)
	wr := &sim.Writer{}
	defer func() {
		if e := recover(); e != nil {
			w.Log(sim.Event{Ev: "panic", Q: qid, Note: fmt.Sprint(e)})
		}
	}()
	h.ServeDNS(context.Background(), wr, req)
	if wr.Msg != nil && wr.Msg.Rcode == dns.RcodeServerFailure {
		w.Log(sim.Event{Ev: "qresp", Q: qid, Client: "hot", Stamps: sim.Ints(nil), Hit: sim.Bool(false), Rcode: wr.Msg.Rcode})
	}
}

func stressReloadTimeout(hot bool) time.Duration {
	if hot {
		return 3 * time.Second
	}
	return 10 * time.Second
}
