package main

// sem: the serving-semantics driver shared by C01 C02 C03 C04 C10 C11.
//
// Input (ndjson, -in): a stream of
//   {"ev":"file","id":N,"text":"<data file>","serial":S,"lines":[...abstract lines...],"opts":{...}}
//   {"ev":"q","file":N,"qid":K,"q":{...abstract query...},"name":"a.b.","type":1,"class":1,"rip":"10.0.0.1",
//    "edns":true,"do":false,"ecs":{"f":1,"len":24,"addr":"10.1.2.0","scope":0},"maxans":1,"reps":1}
//   {"ev":"loc", ...same addressing fields as q...}      location lookup through the real reader only
// For every file the driver compiles the text with the REAL compilers to a CDB file, a RocksDB with v1 keys
// and a RocksDB with v2 keys, opens a real dnsserver.FBDNSDB handler on each, sends every query of that file
// to every handler and writes (-out) the file line (abstract part only) followed by one line per query holding
// the normalised responses of all backends. Nothing is judged here: TLC validates the output against
// Resolve.tla / Lpm.tla.

import (
	"context"
	"encoding/json"
	"flag"
	"fmt"
	"net"
	"os"
	"path/filepath"
	"sort"
	"strings"
	"sync"
	"time"

	"github.com/coredns/coredns/request"
	"github.com/miekg/dns"

	"github.com/facebookincubator/dns/dnsrocks/db"
	"github.com/facebookincubator/dns/dnsrocks/dnsdata"
	"github.com/facebookincubator/dns/dnsrocks/dnsdata/cdb"
	"github.com/facebookincubator/dns/dnsrocks/dnsdata/rdb"
	"github.com/facebookincubator/dns/dnsrocks/dnsserver"

	"verifharness/internal/hx"
)

func init() { register("sem", semMain) }

var semCacheOn bool // the handlers of the current file run with the response cache

// semRecord: the current file asked for the Stats / Logger record of every query (opts.record)
var semRecord bool

// semConcurrent: queries are served from several goroutines; the process-wide db.SeparateBitMap switch is left alone
var semConcurrent bool

type semOpts struct {
	Record   bool `json:"record"`
	Builder  bool `json:"builder"`
	NumCPU   int  `json:"numcpu"`
	Batch    int  `json:"batch"`
	Parallel int  `json:"parallel"`
	Cache    bool `json:"cache"`
}

type semECS struct {
	F     int    `json:"f"`
	Len   int    `json:"len"`
	Addr  string `json:"addr"`
	Scope int    `json:"scope"`
	Raw   []int  `json:"raw"` // when set: the address bytes exactly as they go on the wire (may carry bits beyond Len)
}

type semIn struct {
	Ev     string          `json:"ev"`
	ID     int             `json:"id"`
	File   int             `json:"file"`
	Text   string          `json:"text"`
	Serial uint32          `json:"serial"`
	Lines  json.RawMessage `json:"lines"`
	Opts   *semOpts        `json:"opts"`
	Tag    string          `json:"tag"`
	Keep   bool            `json:"keep"`
	Clause string          `json:"clause"`

	QID    int             `json:"qid"`
	Q      json.RawMessage `json:"q"`
	Name   string          `json:"name"`
	Type   uint16          `json:"type"`
	Class  uint16          `json:"class"`
	RIP    string          `json:"rip"`
	EDNS   bool            `json:"edns"`
	DO     bool            `json:"do"`
	EDNSV  int             `json:"ednsv"`
	ECS    *semECS         `json:"ecs"`
	MaxAns int             `json:"maxans"`
	Reps   int             `json:"reps"`
}

type semRR struct {
	N     [][]int `json:"n"`
	T     int     `json:"t"`
	TTL   int64   `json:"ttl"`
	RD    []int   `json:"rd"`
	Class int     `json:"-"`
}

type semRespECS struct {
	F     int   `json:"f"`
	Len   int   `json:"len"`
	B     []int `json:"b"`
	Scope int   `json:"scope"`
}

type semResp struct {
	Written bool         `json:"written"`
	Panic   string       `json:"panic"`
	Rcode   int          `json:"rcode"`
	AA      bool         `json:"aa"`
	TC      bool         `json:"tc"`
	An      []semRR      `json:"an"`
	Ns      []semRR      `json:"ns"`
	Ex      []semRR      `json:"ex"`
	Opt     bool         `json:"opt"`
	NOpt    int          `json:"nopt"`
	HasECS  bool         `json:"hasecs"`
	ECS     semRespECS   `json:"ecs"`
	Err     string       `json:"err"`
	// what the handler told its Stats / Logger while serving this query (only with opts.record)
	Counters   map[string]int `json:"counters,omitempty"`
	TypeKeys   int            `json:"typekeys"`
	TypeKeyNamed int          `json:"typekeynamed"` // increments of DNS_query.<mnemonic of the qtype> (TYPE<n> when it has none)
	NLog       int            `json:"nlog"`
	NLogFailed int            `json:"nlogfailed"`
	LogSame    bool           `json:"logsame"`
}

type semLocObs struct {
	Err   string `json:"err"`
	Found bool   `json:"found"` // a non-zero location id
	Loc   int    `json:"loc"`
	Mask  int    `json:"mask"`
	Map   int    `json:"map"`
	Nil   bool   `json:"nil"`
}

type semBackend struct {
	name string
	h    *dnsserver.FBDNSDB
	sep  bool // CDB with FBDNS_SEPARATE_MASKLENS semantics
	rec  *semRec
}

type semWriter struct {
	ip      net.IP
	msg     *dns.Msg
	n       int
	packErr string
	size    int
	sent    string // the message handed to WriteMsg, as text
}

func (w *semWriter) LocalAddr() net.Addr  { return &net.UDPAddr{IP: net.ParseIP("127.0.0.1"), Port: 53} }
func (w *semWriter) RemoteAddr() net.Addr { return &net.UDPAddr{IP: w.ip, Port: 40212} }
func (w *semWriter) WriteMsg(m *dns.Msg) error {
	// what the client receives is the packed form: pack and unpack (an unpackable message is kept as is and flagged)
	w.msg = m.Copy()
	w.n++
	w.sent = m.String()
	wire, err := m.Pack()
	if err != nil {
		w.packErr = "pack: " + err.Error()
		return nil
	}
	u := new(dns.Msg)
	if err := u.Unpack(wire); err != nil {
		w.packErr = "unpack: " + err.Error()
		return nil
	}
	w.msg = u
	w.size = len(wire)
	return nil
}
func (w *semWriter) Write(b []byte) (int, error) { return len(b), nil }
func (w *semWriter) Close() error                { return nil }
func (w *semWriter) TsigStatus() error           { return nil }
func (w *semWriter) TsigTimersOnly(bool)         {}
func (w *semWriter) Hijack()                     {}

// semRec records, per query, what the handler tells its Stats and Logger (C19)
type semRec struct {
	mu       sync.Mutex
	c        map[string]int
	nlog     int
	nfail    int
	logSame  bool
	cur      *semWriter
}

func (r *semRec) reset(w *semWriter) {
	r.mu.Lock()
	r.c, r.nlog, r.nfail, r.logSame, r.cur = map[string]int{}, 0, 0, true, w
	r.mu.Unlock()
}
func (r *semRec) IncrementCounter(k string) { r.IncrementCounterBy(k, 1) }
func (r *semRec) IncrementCounterBy(k string, v int64) {
	r.mu.Lock()
	if r.c != nil {
		r.c[k] += int(v)
	}
	r.mu.Unlock()
}
func (r *semRec) ResetCounter(string)          {}
func (r *semRec) ResetCounterTo(string, int64) {}
func (r *semRec) AddSample(k string, v int64) {
	r.mu.Lock()
	if r.c != nil {
		r.c["sample:"+k]++
	}
	r.mu.Unlock()
}
func (r *semRec) Log(_ request.Request, m *dns.Msg, _ *dns.EDNS0_SUBNET) {
	r.mu.Lock()
	r.nlog++
	if r.cur == nil || m == nil || r.cur.sent != m.String() {
		r.logSame = false
	}
	r.mu.Unlock()
}
func (r *semRec) LogFailed(request.Request, *dns.Msg, *dns.EDNS0_SUBNET) {
	r.mu.Lock()
	r.nfail++
	r.mu.Unlock()
}

// semTypeKey: the exported name of the per-type query counter, from miekg's type table (not from the handler's)
func semTypeKey(t uint16) string {
	if n, ok := dns.TypeToString[t]; ok {
		return dnsserver.TypeToStatsPrefix + "." + n
	}
	return fmt.Sprintf("%s.TYPE%d", dnsserver.TypeToStatsPrefix, t)
}

type semNullStats struct{}

func (semNullStats) IncrementCounter(string)          {}
func (semNullStats) IncrementCounterBy(string, int64) {}
func (semNullStats) ResetCounter(string)              {}
func (semNullStats) ResetCounterTo(string, int64)     {}
func (semNullStats) AddSample(string, int64)          {}

// semLabels returns the labels of a presentation-format name as lower-cased byte strings (wire labels).
func semLabels(name string) [][]int {
	out := [][]int{}
	buf := make([]byte, 300)
	off, err := dns.PackDomainName(dns.Fqdn(name), buf, 0, nil, false)
	if err != nil {
		return [][]int{{63, 63, 63}}
	}
	for i := 0; i < off && buf[i] != 0; {
		n := int(buf[i])
		lab := make([]int, n)
		for j := 0; j < n; j++ {
			c := buf[i+1+j]
			if c >= 'A' && c <= 'Z' {
				c += 32
			}
			lab[j] = int(c)
		}
		out = append(out, lab)
		i += n + 1
	}
	return out
}

func semBytes(b []byte) []int {
	o := make([]int, len(b))
	for i, x := range b {
		o[i] = int(x)
	}
	return o
}

// semRdata returns the uncompressed wire rdata of rr (names inside lower-cased by the packer's input only).
func semRdata(rr dns.RR) []int {
	c := dns.Copy(rr)
	c.Header().Name = "."
	buf := make([]byte, 70000)
	off, err := dns.PackRR(c, buf, 0, nil, false)
	if err != nil {
		return []int{-1}
	}
	// name "." (1) + type 2 + class 2 + ttl 4 + rdlen 2
	return semBytes(buf[11:off])
}

func semNormRR(rr dns.RR) semRR {
	h := rr.Header()
	o := semRR{N: semLabels(h.Name), T: int(h.Rrtype), TTL: int64(h.Ttl), Class: int(h.Class)}
	switch x := rr.(type) {
	case *dns.TXT:
		// the declared text: character-strings concatenated (how the text is cut into strings is an encoding detail)
		raw := semRdata(x)
		txt := []int{}
		for i := 0; i < len(raw); {
			n := raw[i]
			if n < 0 || i+1+n > len(raw) {
				txt = append(txt, -1)
				break
			}
			txt = append(txt, raw[i+1:i+1+n]...)
			i += 1 + n
		}
		o.RD = txt
	default:
		o.RD = semRdata(rr)
	}
	return o
}

func semNorm(m *dns.Msg) semResp {
	r := semResp{Written: true, Rcode: m.Rcode, AA: m.Authoritative, TC: m.Truncated, An: []semRR{}, Ns: []semRR{}, Ex: []semRR{},
		ECS: semRespECS{B: []int{}}}
	for _, rr := range m.Answer {
		r.An = append(r.An, semNormRR(rr))
	}
	for _, rr := range m.Ns {
		r.Ns = append(r.Ns, semNormRR(rr))
	}
	for _, rr := range m.Extra {
		if o, ok := rr.(*dns.OPT); ok {
			r.Opt = true
			r.NOpt++
			// extended rcode lives in the OPT TTL
			r.Rcode = m.Rcode
			for _, op := range o.Option {
				if e, ok := op.(*dns.EDNS0_SUBNET); ok {
					r.HasECS = true
					r.ECS = semRespECS{F: int(e.Family), Len: int(e.SourceNetmask), B: semBytes(e.Address.To16()), Scope: int(e.SourceScope)}
				}
			}
			continue
		}
		r.Ex = append(r.Ex, semNormRR(rr))
	}
	return r
}

func semBuildQuery(in *semIn) *dns.Msg {
	req := new(dns.Msg)
	req.SetQuestion(in.Name, in.Type)
	if in.Class != 0 {
		req.Question[0].Qclass = in.Class
	}
	req.Id = uint16(1000 + in.QID%60000)
	if in.EDNS || in.ECS != nil {
		o := new(dns.OPT)
		o.Hdr.Name = "."
		o.Hdr.Rrtype = dns.TypeOPT
		o.SetUDPSize(4096)
		if in.DO {
			o.SetDo()
		}
		if in.EDNSV != 0 {
			o.SetVersion(uint8(in.EDNSV))
		}
		if in.ECS != nil && in.ECS.Raw != nil {
			// hand-made option 8: family, source length, scope, address bytes as given
			data := []byte{byte(in.ECS.F >> 8), byte(in.ECS.F), byte(in.ECS.Len), byte(in.ECS.Scope)}
			for _, b := range in.ECS.Raw {
				data = append(data, byte(b))
			}
			o.Option = append(o.Option, &dns.EDNS0_LOCAL{Code: dns.EDNS0SUBNET, Data: data})
		} else if in.ECS != nil {
			e := new(dns.EDNS0_SUBNET)
			e.Code = dns.EDNS0SUBNET
			e.Family = uint16(in.ECS.F)
			e.SourceNetmask = uint8(in.ECS.Len)
			e.SourceScope = uint8(in.ECS.Scope)
			ip := net.ParseIP(in.ECS.Addr)
			if in.ECS.F == 1 {
				e.Address = ip.To4()
			} else {
				e.Address = ip.To16()
			}
			o.Option = append(o.Option, e)
		}
		req.Extra = append(req.Extra, o)
	}
	return req
}

func semServe(b *semBackend, in *semIn) (resp semResp) {
	req := semBuildQuery(in)
	// the real transport hands the handler a message that went through pack/unpack
	if wire, err := req.Pack(); err == nil {
		m2 := new(dns.Msg)
		if m2.Unpack(wire) == nil {
			req = m2
		}
	}
	w := &semWriter{ip: net.ParseIP(in.RIP)}
	ctx := context.Background()
	if in.MaxAns > 0 {
		ctx = dnsserver.WithMaxAnswer(ctx, in.MaxAns)
	}
	if !semConcurrent {
		db.SeparateBitMap = b.sep
	}
	defer func() {
		if !semConcurrent {
			db.SeparateBitMap = false
		}
		if e := recover(); e != nil {
			resp = semResp{Panic: fmt.Sprint(e), An: []semRR{}, Ns: []semRR{}, Ex: []semRR{}, ECS: semRespECS{B: []int{}}}
		}
	}()
	if !semConcurrent && b.rec != nil {
		b.rec.reset(w)
	}
	rc, err := b.h.ServeDNS(ctx, w, req)
	defer func() {
		if semRecord && !semConcurrent && b.rec != nil && resp.Panic == "" {
			b.rec.mu.Lock()
			resp.Counters = map[string]int{}
			for k, v := range b.rec.c {
				resp.Counters[k] = v
				if strings.HasPrefix(k, dnsserver.TypeToStatsPrefix+".") {
					resp.TypeKeys += v
				}
				if k == semTypeKey(req.Question[0].Qtype) {
					resp.TypeKeyNamed += v
				}
			}
			resp.NLog, resp.NLogFailed, resp.LogSame = b.rec.nlog, b.rec.nfail, b.rec.logSame
			b.rec.mu.Unlock()
		}
	}()
	if w.msg == nil {
		r := semResp{Written: false, Rcode: rc, An: []semRR{}, Ns: []semRR{}, Ex: []semRR{}, ECS: semRespECS{B: []int{}}}
		if err != nil {
			r.Err = err.Error()
		}
		return r
	}
	r := semNorm(w.msg)
	if w.n > 1 {
		r.Err = fmt.Sprintf("written %d times", w.n)
	}
	if w.packErr != "" {
		r.Err = w.packErr
	}
	return r
}

func semLocate(b *semBackend, in *semIn) (obs semLocObs) {
	old := db.SeparateBitMap
	db.SeparateBitMap = b.sep
	defer func() {
		db.SeparateBitMap = old
		if e := recover(); e != nil {
			obs = semLocObs{Err: "panic: " + fmt.Sprint(e)}
		}
	}()
	rd, err := b.h.AcquireReader()
	if err != nil {
		return semLocObs{Err: err.Error()}
	}
	defer rd.Close()
	packed := make([]byte, 255)
	off, err := dns.PackDomainName(strings.ToLower(in.Name), packed, 0, nil, false)
	if err != nil {
		return semLocObs{Err: err.Error()}
	}
	packed = packed[:off]
	var loc *db.Location
	if in.ECS != nil {
		e := new(dns.EDNS0_SUBNET)
		e.Code = dns.EDNS0SUBNET
		e.Family = uint16(in.ECS.F)
		e.SourceNetmask = uint8(in.ECS.Len)
		ip := net.ParseIP(in.ECS.Addr)
		if in.ECS.F == 1 {
			e.Address = ip.To4()
		} else {
			e.Address = ip.To16()
		}
		loc, err = rd.EcsLocation(packed, e)
	} else {
		loc, err = rd.ResolverLocation(packed, in.RIP)
	}
	if err != nil {
		return semLocObs{Err: err.Error()}
	}
	if loc == nil {
		return semLocObs{Nil: true}
	}
	id := int(loc.LocID[0])<<8 | int(loc.LocID[1])
	return semLocObs{Found: id != 0, Loc: id, Mask: int(loc.Mask), Map: int(loc.MapID[0])<<8 | int(loc.MapID[1])}
}

type semWorld struct {
	dir      string
	backends []*semBackend
	compErr  map[string]string
}

func (w *semWorld) close() {
	for _, b := range w.backends {
		b.h.Close()
	}
	os.RemoveAll(w.dir)
}

func semOpen(path, driver string, cache bool) (*dnsserver.FBDNSDB, *semRec, error) {
	rec := &semRec{}
	h, err := dnsserver.NewFBDNSDBBasic(dnsserver.HandlerConfig{}, dnsserver.DBConfig{Path: path, Driver: driver, ReloadTimeout: 10 * time.Second},
		dnsserver.CacheConfig{Enabled: cache, LRUSize: 4096}, rec, rec)
	if err != nil {
		return nil, nil, err
	}
	if err := h.Load(); err != nil {
		return nil, nil, err
	}
	return h, rec, nil
}

func semCompile(f *semIn, want map[string]bool) *semWorld {
	w := &semWorld{dir: hx.TempDir("vh-sem-"), compErr: map[string]string{}}
	src := filepath.Join(w.dir, "data.txt")
	if err := os.WriteFile(src, []byte(f.Text), 0o644); err != nil {
		hx.Die("%v", err)
	}
	mt := time.Unix(int64(f.Serial), 0)
	os.Chtimes(src, mt, mt)
	opts := semOpts{NumCPU: 1, Batch: 1000, Parallel: 1}
	if f.Opts != nil {
		opts = *f.Opts
		if opts.NumCPU <= 0 {
			opts.NumCPU = 1
		}
		if opts.Batch <= 0 {
			opts.Batch = 1000
		}
		if opts.Parallel <= 0 {
			opts.Parallel = 1
		}
	}
	if want["cdb"] || want["cdbsep"] {
		out := filepath.Join(w.dir, "data.cdb")
		if _, err := cdb.CreateCDB(src, out, &cdb.CreatorOptions{NumCPU: opts.NumCPU}); err != nil {
			w.compErr["cdb"] = err.Error()
		} else {
			for _, nm := range []string{"cdb", "cdbsep"} {
				if !want[nm] {
					continue
				}
				h, rec, err := semOpen(out, "cdb", opts.Cache)
				if err != nil {
					w.compErr[nm] = "open: " + err.Error()
					continue
				}
				w.backends = append(w.backends, &semBackend{name: nm, h: h, sep: nm == "cdbsep", rec: rec})
			}
		}
	}
	for _, v2 := range []bool{false, true} {
		nm := "v1"
		if v2 {
			nm = "v2"
		}
		if !want[nm] {
			continue
		}
		dir := filepath.Join(w.dir, "rdb-"+nm)
		os.MkdirAll(dir, 0o755)
		co := rdb.CompilationOptions{NumCPU: opts.NumCPU, UseV2KeySyntax: v2, UseBuilder: opts.Builder, BatchNumParallel: opts.Parallel, BatchSize: opts.Batch}
		if _, err := rdb.CompileToSpecificRDBVersion(src, dir, co); err != nil {
			w.compErr[nm] = err.Error()
			continue
		}
		h, rec, err := semOpen(dir, "rocksdb", opts.Cache)
		if err != nil {
			w.compErr[nm] = "open: " + err.Error()
			continue
		}
		w.backends = append(w.backends, &semBackend{name: nm, h: h, rec: rec})
	}
	return w
}

func semMain(args []string) {
	fs := flag.NewFlagSet("sem", flag.ExitOnError)
	in := fs.String("in", "", "input ndjson")
	out := fs.String("out", "trace.ndjson", "output ndjson")
	backends := fs.String("backends", "cdb,cdbsep,v1,v2", "backends to run")
	conc := fs.Int("conc", 1, "goroutines that share the repetitions of a query (reps > 1)")
	fs.Parse(args)
	semConcurrent = *conc > 1
	want := map[string]bool{}
	for _, b := range strings.Split(*backends, ",") {
		want[b] = true
	}
	wr := hx.NewWriter(*out)
	defer wr.Close()
	if seedRand := os.Getenv("VH_SEM_SEEDRAND"); seedRand != "" {
		db.SetRandForVerif(hx.Rng(1100))
	}

	var world *semWorld
	nfiles, nq := 0, 0
	hx.ReadLines(*in, func(line []byte) {
		var e semIn
		if err := json.Unmarshal(line, &e); err != nil {
			hx.Die("bad input line: %v: %s", err, string(line))
		}
		switch e.Ev {
		case "file":
			if world != nil {
				world.close()
			}
			world = semCompile(&e, want)
			semRecord = e.Opts != nil && e.Opts.Record
			semCacheOn = e.Opts != nil && e.Opts.Cache
			nfiles++
			names := []string{}
			for _, b := range world.backends {
				names = append(names, b.name)
			}
			sort.Strings(names)
			wr.Put(map[string]interface{}{"ev": "file", "id": e.ID, "serial": e.Serial, "lines": e.Lines, "backends": names,
				"comperr": world.compErr, "tag": e.Tag, "keep": e.Keep, "clause": e.Clause})
		case "q":
			if world == nil {
				hx.Die("query before file")
			}
			reps := e.Reps
			if reps <= 0 {
				reps = 1
			}
			if *conc > 1 && reps > 1 {
				// the repetitions are shared by goroutines that use the handlers (and the shared random source) at once
				var wg sync.WaitGroup
				var mu sync.Mutex
				for g := 0; g < *conc; g++ {
					wg.Add(1)
					go func(g int) {
						defer wg.Done()
						for i := g; i < reps; i += *conc {
							res := map[string]semResp{}
							for _, b := range world.backends {
								if b.sep {
									continue // db.SeparateBitMap is a process-wide switch: not toggled concurrently
								}
								res[b.name] = semServe(b, &e)
							}
							mu.Lock()
							wr.Put(map[string]interface{}{"ev": "q", "file": e.File, "qid": e.QID, "q": e.Q, "r": res, "tag": e.Tag, "rec": false, "cache": semCacheOn})
							nq++
							mu.Unlock()
						}
					}(g)
				}
				wg.Wait()
				break
			}
			for i := 0; i < reps; i++ {
				res := map[string]semResp{}
				for _, b := range world.backends {
					res[b.name] = semServe(b, &e)
				}
				wr.Put(map[string]interface{}{"ev": "q", "file": e.File, "qid": e.QID, "q": e.Q, "r": res, "tag": e.Tag, "rec": semRecord, "cache": semCacheOn})
				nq++
			}
		case "rp":
			// the range-point table of the REAL dnsdata.Rearranger for one set of subnets (no database involved)
			var in struct {
				Nets []struct {
					Cidr string `json:"cidr"`
					Loc  int    `json:"loc"`
				} `json:"netsc"`
			}
			if err := json.Unmarshal(line, &in); err != nil {
				hx.Die("bad rp line: %v", err)
			}
			ra := dnsdata.NewRearranger(len(in.Nets))
			rerr := ""
			for _, n := range in.Nets {
				_, ipn, err := net.ParseCIDR(n.Cidr)
				if err != nil {
					hx.Die("bad cidr %q", n.Cidr)
				}
				// as the data-file parser hands subnets over: 16-byte address, mask in 128-bit space
				ipn.IP = ipn.IP.To16()
				if ones, bits := ipn.Mask.Size(); bits < 128 {
					ipn.Mask = net.CIDRMask(ones+128-bits, 128)
				}
				if err := ra.AddLocation(ipn, []byte{byte(n.Loc >> 8), byte(n.Loc)}); err != nil {
					rerr = err.Error()
				}
			}
			pts := []map[string]interface{}{}
			func() {
				defer func() {
					if p := recover(); p != nil {
						rerr = fmt.Sprintf("panic: %v", p)
					}
				}()
				for _, p := range ra.Rearrange() {
					ip := p.To16()
					loc := 0
					if !p.LocIsNull() {
						loc = int(p.LocID()[0])<<8 | int(p.LocID()[1])
					}
					pts = append(pts, map[string]interface{}{"b": semBytes(ip[:]), "ml": int(p.MaskLen()), "null": p.LocIsNull(), "loc": loc})
				}
			}()
			var raw map[string]json.RawMessage
			json.Unmarshal(line, &raw)
			wr.Put(map[string]interface{}{"ev": "rp", "qid": e.QID, "tag": e.Tag, "nets": raw["nets"], "clients": raw["clients"], "points": pts, "err": rerr})
			nq++
		case "wire":
			if world == nil {
				hx.Die("wire before file")
			}
			var d wireDesc
			if err := json.Unmarshal(e.Q, &d); err != nil {
				hx.Die("bad descriptor: %v", err)
			}
			res := map[string]wireOut{}
			for _, b := range world.backends {
				o := wireServe(b, d, false)
				o.BaseSame = true
				if d.EDNS >= 0 && d.Opts != 0 {
					base := wireServe(b, d, true)
					o.BaseSame = base.digest == o.digest
				}
				res[b.name] = o
			}
			wr.Put(map[string]interface{}{"ev": "wire", "file": e.File, "qid": e.QID, "d": d, "db": e.Tag, "r": res})
			nq++
		case "freq":
			// the same single-address query asked Reps times: how often each address was the one served
			if world == nil {
				hx.Die("freq before file")
			}
			type cnt struct {
				RD []int `json:"rd"`
				C  int   `json:"c"`
			}
			counts := map[string][]cnt{}
			other := map[string]int{}
			for _, b := range world.backends {
				m := map[string]*cnt{}
				keys := []string{}
				for i := 0; i < e.Reps; i++ {
					r := semServe(b, &e)
					if !r.Written || r.Rcode != 0 || len(r.An) != 1 || r.An[0].T != int(e.Type) {
						other[b.name]++
						continue
					}
					k := fmt.Sprint(r.An[0].RD)
					if m[k] == nil {
						m[k] = &cnt{RD: r.An[0].RD}
						keys = append(keys, k)
					}
					m[k].C++
				}
				sort.Strings(keys)
				lst := []cnt{}
				for _, k := range keys {
					lst = append(lst, *m[k])
				}
				counts[b.name] = lst
				if _, ok := other[b.name]; !ok {
					other[b.name] = 0
				}
			}
			wr.Put(map[string]interface{}{"ev": "freq", "file": e.File, "qid": e.QID, "q": e.Q, "n": e.Reps, "counts": counts, "other": other, "tag": e.Tag})
			nq += e.Reps
		case "loc":
			if world == nil {
				hx.Die("loc before file")
			}
			res := map[string]semLocObs{}
			for _, b := range world.backends {
				res[b.name] = semLocate(b, &e)
			}
			wr.Put(map[string]interface{}{"ev": "loc", "file": e.File, "qid": e.QID, "q": e.Q, "r": res, "tag": e.Tag})
			nq++
		default:
			hx.Die("unknown event %q", e.Ev)
		}
	})
	if world != nil {
		world.close()
	}
	b, _ := json.Marshal(map[string]int{"files": nfiles, "queries": nq})
	fmt.Println(string(b))
}
