package main

// control: replay of the two leads of spec/Control.tla on the real FBDNSDB control plane (NewFBDNSDB with a periodic
// reload, its consumer goroutine, Close), over the instrumented backend whose Reload can be held at a gate.
//
//   scenario "close-while-sender-blocked":
//     tick 1 -> the consumer runs Reload and is held inside the backend (it holds reloadMu);
//     tick 2 -> the periodic producer is blocked in its send on ReloadChan;
//     Close() is called (waits for reloadMu); the backend is released.
//   What can happen then (Control.tla): Close closes ReloadChan under the blocked sender -> "send on closed channel"
//   (the process dies: the caller sees the exit status), or the consumer takes the second signal and runs Reload on
//   the destroyed database (recorded as a use of a closed backend).  A clean run writes {"ev":"control","outcome":"clean"}.

import (
	"flag"
	"fmt"
	"os"
	"time"

	"github.com/facebookincubator/dns/dnsrocks/db"
	"github.com/facebookincubator/dns/dnsrocks/dnsserver"

	"verifharness/internal/hx"
	"verifharness/internal/sim"
)

func init() { register("control", controlMain) }

func controlMain(args []string) {
	fs := flag.NewFlagSet("control", flag.ExitOnError)
	outp := fs.String("out", "trace.ndjson", "output ndjson")
	hold := fs.Int("hold", 1300, "ms to hold the first reload after it started (the periodic interval is 1 s)")
	fs.Parse(args)
	wr := hx.NewWriter(*outp)
	defer wr.Close()
	world := sim.NewWorld("rdb")
	world.Sched = sim.NewSched()
	world.Publish("p1", 1)
	b0, err := world.OpenBackend("p1")
	if err != nil {
		hx.Die("%v", err)
	}
	stats := sim.NewStats(world)
	stats.Quiet = true
	h, err := dnsserver.NewFBDNSDB(dnsserver.HandlerConfig{}, dnsserver.DBConfig{Path: "p1", Driver: "sim", ReloadInterval: 1, ReloadTimeout: 30 * time.Second},
		dnsserver.CacheConfig{}, &dnsserver.DummyLogger{}, stats)
	if err != nil {
		hx.Die("%v", err)
	}
	h.SetDBForVerif(db.NewDBFromDBIForVerif(b0))
	// tick 1: the reload goroutine of db.DB.Reload parks inside the backend
	if p, ok := world.Sched.Wait("g1", 0, 12*time.Second); !ok || p != "g:enter" {
		hx.Die("the first periodic reload did not start (parked at %q)", p)
	}
	time.Sleep(time.Duration(*hold) * time.Millisecond) // tick 2: the producer is now blocked in its send
	closed := make(chan struct{})
	go func() {
		h.Close()
		close(closed)
	}()
	time.Sleep(100 * time.Millisecond) // Close is waiting for reloadMu
	world.Sched.Release("g1")
	if p, ok := world.Sched.Wait("g1", 0, 2*time.Second); ok && p == "g:exit" {
		world.Sched.Release("g1")
	}
	// a signal taken before Close got the lock starts another reload: hold that one as well, so that the producer
	// is blocked in its send again when Close finally gets reloadMu (the mutex hands over to the longest waiter)
	deadline := time.Now().Add(time.Duration(*hold)*time.Millisecond*3 + 2*time.Second)
	held := map[string]time.Time{}
	for time.Now().Before(deadline) {
		for _, g := range []string{"g2", "g3", "g4"} {
			if pt := world.Sched.ParkedAt(g); pt == "g:enter" {
				if t0, ok := held[g]; !ok {
					held[g] = time.Now()
				} else if time.Since(t0) > time.Duration(*hold)*time.Millisecond {
					world.Sched.Release(g)
				}
			} else if pt != "" {
				world.Sched.Release(g)
			}
		}
		time.Sleep(5 * time.Millisecond)
		select {
		case <-closed:
			// Close has returned: whatever reload starts now runs on the destroyed database - let it run
			end := time.Now().Add(800 * time.Millisecond)
			for time.Now().Before(end) {
				world.Sched.ReleaseAll()
				time.Sleep(5 * time.Millisecond)
			}
			deadline = time.Now()
		default:
		}
	}
	world.Sched.ReleaseAll()
	time.Sleep(100 * time.Millisecond)
	outcome := "clean"
	select {
	case <-closed:
	default:
		outcome = "close-did-not-return"
	}
	uac := 0
	for _, e := range world.Events {
		if e.Ev == "uac" || e.Ev == "dblclose" {
			uac++
			outcome = "backend-used-after-destroy"
			wr.Put(map[string]interface{}{"ev": "control-detail", "event": e.Ev, "method": e.Method, "backend": e.Backend})
		}
	}
	wr.Put(map[string]interface{}{"ev": "control", "scenario": "close-while-sender-blocked", "outcome": outcome, "reloads": world.ReloadCount(), "uses_after_destroy": uac})
	if os.Getenv("VH_VERBOSE") != "" {
		for _, e := range world.Events {
			fmt.Fprintf(os.Stderr, "ev %+v\n", e)
		}
		fmt.Fprintf(os.Stderr, "sched %v\n", world.Sched.Trace)
	}
	fmt.Printf("{\"outcome\":%q}\n", outcome)
}
