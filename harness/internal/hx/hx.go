// Package hx holds plumbing shared by the verification drivers: seeded randomness, ndjson
// output, scratch directories, compact value representation.
package hx

import (
	"bufio"
	"crypto/sha256"
	"encoding/hex"
	"encoding/json"
	"fmt"
	"math/rand"
	"os"
	"strconv"
	"sync"
)

// Seed returns VERIF_SEED (default 1).
func Seed() int64 {
	if s := os.Getenv("VERIF_SEED"); s != "" {
		if v, err := strconv.ParseInt(s, 10, 64); err == nil {
			return v
		}
	}
	return 1
}

// Tier returns VERIF_TIER (default quick).
func Tier() string {
	if t := os.Getenv("VERIF_TIER"); t != "" {
		return t
	}
	return "quick"
}

// Thorough reports whether the thorough tier is selected.
func Thorough() bool { return Tier() == "thorough" }

// Rng returns a generator derived from VERIF_SEED and a per-use salt.
func Rng(salt int64) *rand.Rand { return rand.New(rand.NewSource(Seed()*1000003 + salt)) }

// Writer writes one JSON object per line; safe for concurrent use.
type Writer struct {
	mu sync.Mutex
	f  *os.File
	w  *bufio.Writer
	N  int
}

// NewWriter creates/truncates path.
func NewWriter(path string) *Writer {
	f, err := os.Create(path)
	if err != nil {
		Die("create %s: %v", path, err)
	}
	return &Writer{f: f, w: bufio.NewWriterSize(f, 1<<20)}
}

// Put appends one line.
func (w *Writer) Put(v interface{}) {
	b, err := json.Marshal(v)
	if err != nil {
		Die("marshal: %v", err)
	}
	w.mu.Lock()
	w.w.Write(b)
	w.w.WriteByte('\n')
	w.N++
	w.mu.Unlock()
}

// PutAll appends several lines as one uninterrupted block.
func (w *Writer) PutAll(vs []interface{}) {
	var bs [][]byte
	for _, v := range vs {
		b, err := json.Marshal(v)
		if err != nil {
			Die("marshal: %v", err)
		}
		bs = append(bs, b)
	}
	w.mu.Lock()
	for _, b := range bs {
		w.w.Write(b)
		w.w.WriteByte('\n')
		w.N++
	}
	w.mu.Unlock()
}

// Close flushes and closes.
func (w *Writer) Close() {
	w.mu.Lock()
	defer w.mu.Unlock()
	w.w.Flush()
	w.f.Close()
}

// Die prints and exits 3 (infrastructure failure, never a verdict).
func Die(format string, a ...interface{}) {
	fmt.Fprintf(os.Stderr, "vh: "+format+"\n", a...)
	os.Exit(3)
}

// TempDir makes a scratch directory (caller removes).
func TempDir(prefix string) string {
	d, err := os.MkdirTemp("", prefix)
	if err != nil {
		Die("tempdir: %v", err)
	}
	return d
}

// VRep is an injective (up to sha256 collisions) printable representation of a byte string:
// short values as hex, long ones as length plus digest.
func VRep(b []byte) string {
	if len(b) <= 24 {
		return "x" + hex.EncodeToString(b)
	}
	h := sha256.Sum256(b)
	return fmt.Sprintf("L%d:%s", len(b), hex.EncodeToString(h[:12]))
}

// ReadLines reads an ndjson file and calls f for each line.
func ReadLines(path string, f func(line []byte)) {
	fh, err := os.Open(path)
	if err != nil {
		Die("open %s: %v", path, err)
	}
	defer fh.Close()
	sc := bufio.NewScanner(fh)
	sc.Buffer(make([]byte, 1<<20), 1<<28)
	for sc.Scan() {
		if len(sc.Bytes()) == 0 {
			continue
		}
		b := make([]byte, len(sc.Bytes()))
		copy(b, sc.Bytes())
		f(b)
	}
	if err := sc.Err(); err != nil {
		Die("read %s: %v", path, err)
	}
}
