package sim

import (
	"strings"
	"sync"
	"time"
)

// Sched parks registered goroutines at seams that belong to their stop set and lets a controller
// release them one step at a time.
type Sched struct {
	mu     sync.Mutex
	cond   *sync.Cond
	parked map[string]*park // proc -> where it is parked
	done   map[string]int   // proc -> number of completed activities
	Trace  []string         // "proc@point" in arrival order (diagnostics)
}

type park struct {
	point string
	ch    chan struct{}
}

// NewSched creates a scheduler.
func NewSched() *Sched {
	s := &Sched{parked: map[string]*park{}, done: map[string]int{}}
	s.cond = sync.NewCond(&s.mu)
	return s
}

// stop sets: the seams at which each kind of process parks
func shouldStop(proc, point string) bool {
	switch {
	case strings.HasPrefix(proc, "q"):
		switch point {
		case "stat:DNS_queries", "stat:DNS_query.MX", "stat:DNS_query.A", "stat:DNS_query.TXT",
			"stat:DNS_response.authoritative", "dbi:enter:extra", "dbi:exit:extra", "write", "free":
			return true
		}
	case proc == "r":
		switch point {
		case "dbi:enter:valkey", "free", "stat:DNS_db.reload", "stat:DNS_db.ErrReloadTimeout", "stat:DNS_db.ErrValidationKeyNotFound":
			return true
		}
	case strings.HasPrefix(proc, "g"):
		return point == "g:enter" || point == "g:exit"
	}
	return false
}

func (s *Sched) at(proc, point string) {
	if proc == "" || !shouldStop(proc, point) {
		return
	}
	p := &park{point: point, ch: make(chan struct{})}
	s.mu.Lock()
	s.parked[proc] = p
	s.Trace = append(s.Trace, proc+"@"+point)
	s.cond.Broadcast()
	s.mu.Unlock()
	<-p.ch
}

// Finished is called by a worker when its current activity (one query, one reload) has returned.
func (s *Sched) Finished(proc string) {
	s.mu.Lock()
	s.done[proc]++
	s.cond.Broadcast()
	s.mu.Unlock()
}

// DoneCount returns how many activities proc has completed.
func (s *Sched) DoneCount(proc string) int {
	s.mu.Lock()
	defer s.mu.Unlock()
	return s.done[proc]
}

// ParkedAt returns the point where proc is parked ("" if running / not parked).
func (s *Sched) ParkedAt(proc string) string {
	s.mu.Lock()
	defer s.mu.Unlock()
	if p := s.parked[proc]; p != nil {
		return p.point
	}
	return ""
}

// Release lets proc continue; false if it is not parked.
func (s *Sched) Release(proc string) bool {
	s.mu.Lock()
	p := s.parked[proc]
	delete(s.parked, proc)
	s.mu.Unlock()
	if p == nil {
		return false
	}
	close(p.ch)
	return true
}

// Wait blocks until proc is parked or has completed more than doneBefore activities.
// Returns the park point ("" when the activity finished) and ok=false on timeout.
func (s *Sched) Wait(proc string, doneBefore int, d time.Duration) (string, bool) {
	deadline := time.Now().Add(d)
	s.mu.Lock()
	defer s.mu.Unlock()
	for {
		if p := s.parked[proc]; p != nil {
			return p.point, true
		}
		if s.done[proc] > doneBefore {
			return "", true
		}
		if time.Now().After(deadline) {
			return "", false
		}
		// cond.Wait has no timeout: poll with a short sleep
		s.mu.Unlock()
		time.Sleep(20 * time.Microsecond)
		s.mu.Lock()
	}
}

// ReleaseAll unparks everything (end of a scenario).
func (s *Sched) ReleaseAll() {
	s.mu.Lock()
	ps := s.parked
	s.parked = map[string]*park{}
	s.mu.Unlock()
	for _, p := range ps {
		close(p.ch)
	}
}
