// Package sim provides the instrumented storage backend (an in-memory db.DBI holding
// generation-stamped data compiled by the real codec), recording Stats / Logger / ResponseWriter
// implementations, an event log with a global sequence number, and the gate mechanism the replay
// scheduler uses to park goroutines of the real code at its public seams.
package sim

import (
	"bytes"
	"fmt"
	"io"
	"net"
	"runtime"
	"strconv"
	"strings"
	"sync"
	"sync/atomic"
	"time"

	"github.com/facebookincubator/dns/dnsrocks/db"
	"github.com/facebookincubator/dns/dnsrocks/dnsdata"
)

// Event is one line of the observation log.
type Event struct {
	Seq     int64    `json:"seq"`
	Ev      string   `json:"ev"`
	Proc    string   `json:"proc,omitempty"`
	Q       int      `json:"q,omitempty"`
	Client  string   `json:"client,omitempty"`
	ID      int      `json:"id,omitempty"`
	Kind    string   `json:"kind,omitempty"`
	Path    string   `json:"path,omitempty"`
	Gen     int      `json:"gen,omitempty"`
	Ok      *bool    `json:"ok,omitempty"`
	Err     string   `json:"err,omitempty"`
	Stamps  *[]int   `json:"stamps,omitempty"`
	Hit     *bool    `json:"hit,omitempty"`
	Backend int      `json:"backend,omitempty"`
	Method  string   `json:"method,omitempty"`
	Open    *[]int   `json:"open,omitempty"`
	Served  int      `json:"served,omitempty"`
	Shut    *bool    `json:"shut,omitempty"`
	Note    string   `json:"note,omitempty"`
	Rcode   int      `json:"rcode,omitempty"`
	Qtype   string   `json:"qtype,omitempty"`
}

// World is the shared environment of one scenario: published generations per path, all backends
// ever opened, the event log and (optionally) a scheduler.
type World struct {
	mu       sync.Mutex
	seq      int64
	Disk     map[string]int // path -> generation (0/absent = nothing there)
	BadGens  map[int]bool   // generations without the validation key
	Kind     string         // "cdb": Reload always opens a new backend; "rdb": same path = catch-up in place
	Backends []*Backend
	Events   []Event
	Sched    *Sched
	reloads  int32
	procs    sync.Map // goid -> proc name
	Jitter   int      // free-running mode: random micro-delays at seams (0 = none)
	Hot      bool     // hot stress: no seams, no per-query events
	data     map[int]map[string][][]byte
	dataMu   sync.Mutex
}

// NewWorld creates an empty world.
func NewWorld(kind string) *World {
	return &World{Disk: map[string]int{}, BadGens: map[int]bool{}, Kind: kind, data: map[int]map[string][][]byte{}}
}

// Log appends an event, stamping it with the global sequence number.
func (w *World) Log(e Event) {
	w.mu.Lock()
	w.seq++
	e.Seq = w.seq
	if e.Proc == "" {
		e.Proc = w.Proc()
	}
	w.Events = append(w.Events, e)
	w.mu.Unlock()
}

// Bool is a helper for optional booleans in events.
func Bool(b bool) *bool { return &b }

// Ints is a helper for optional int lists in events.
func Ints(v []int) *[]int {
	if v == nil {
		v = []int{}
	}
	return &v
}

func goid() int64 {
	var buf [64]byte
	n := runtime.Stack(buf[:], false)
	// "goroutine 123 [running]:"
	f := strings.Fields(string(buf[:n]))
	if len(f) < 2 {
		return -1
	}
	id, _ := strconv.ParseInt(f[1], 10, 64)
	return id
}

// Register names the calling goroutine (query worker "q1", reloader "r", ...).
func (w *World) Register(proc string) { w.procs.Store(goid(), proc) }

// Unregister forgets the calling goroutine.
func (w *World) Unregister() { w.procs.Delete(goid()) }

// Proc returns the name of the calling goroutine ("" if unknown).
func (w *World) Proc() string {
	if v, ok := w.procs.Load(goid()); ok {
		return v.(string)
	}
	return ""
}

// At is called at every seam; with a scheduler installed it may park the calling goroutine.
func (w *World) At(point string) {
	if w.Hot {
		return
	}
	if s := w.Sched; s != nil {
		s.at(w.Proc(), point)
		return
	}
	if w.Jitter > 0 {
		// cheap deterministic-ish perturbation: yield or sleep a few microseconds
		n := atomic.AddInt64(&jitterCtr, 1)
		switch n % int64(w.Jitter) {
		case 0:
			time.Sleep(time.Duration(n%7) * 10 * time.Microsecond)
		case 1:
			runtime.Gosched()
		}
	}
}

var jitterCtr int64

// ------------------------------------------------------------------------------------------------
// generation-stamped data

// Zone is the zone served by every generation.
const Zone = "z.test"

// DataText renders the data file of generation g. Every answer reveals g:
//   MX z.test        -> preference g, target mail.z.test; additional A 10.0.g.2
//   A  www.z.test    -> 10.0.g.1
//   TXT txt.z.test   -> "gen=g"
//   SOA serial g (negative answers)
// "valid.z.test" exists only in generations that carry the validation key.
func DataText(g int, valid bool) string {
	var b strings.Builder
	fmt.Fprintf(&b, "Zz.test,ns.z.test,hostmaster.z.test,%d,7200,1800,604800,120,120\n", g)
	fmt.Fprintf(&b, "&z.test,,ns.z.test,300\n")
	fmt.Fprintf(&b, "+ns.z.test,10.9.%d.9,300\n", g)
	fmt.Fprintf(&b, "@z.test,,mail.z.test,%d,300\n", g)
	fmt.Fprintf(&b, "+mail.z.test,10.0.%d.2,300\n", g)
	fmt.Fprintf(&b, "+www.z.test,10.0.%d.1,300\n", g)
	fmt.Fprintf(&b, "'txt.z.test,gen=%d,300\n", g)
	if valid {
		fmt.Fprintf(&b, "+valid.z.test,10.1.1.1,300\n")
	}
	return b.String()
}

// ValidationKey is the v1 key of valid.z.test (no location).
func ValidationKey() []byte {
	return append([]byte{0, 0}, []byte("\x05valid\x01z\x04test\x00")...)
}

func (w *World) genData(g int) map[string][][]byte {
	w.dataMu.Lock()
	defer w.dataMu.Unlock()
	if d, ok := w.data[g]; ok {
		return d
	}
	codec := new(dnsdata.Codec)
	codec.Serial = uint32(g)
	recs, err := dnsdata.Parse(strings.NewReader(DataText(g, !w.BadGens[g])), codec, 1)
	if err != nil {
		panic(fmt.Sprintf("sim: cannot compile generation %d: %v", g, err))
	}
	d := map[string][][]byte{}
	for _, r := range recs {
		d[string(r.Key)] = append(d[string(r.Key)], r.Value)
	}
	w.data[g] = d
	return d
}

// ------------------------------------------------------------------------------------------------
// the instrumented backend

// Backend implements db.DBI in memory.
type Backend struct {
	W      *World
	ID     int
	Path   string
	view   int32
	open   bool
	openA  int32 // mirror of open for lock-free reads on the hot path
	closes int
	uses   int64
}

type simCtx struct{}

func (simCtx) Reset() {}

// OpenBackend creates a backend for whatever is published at path (error if nothing is).
func (w *World) OpenBackend(path string) (*Backend, error) {
	w.mu.Lock()
	g := w.Disk[path]
	if g == 0 {
		w.mu.Unlock()
		return nil, fmt.Errorf("sim: nothing published at %s", path)
	}
	b := &Backend{W: w, ID: len(w.Backends) + 1, Path: path, view: int32(g), open: true, openA: 1}
	w.Backends = append(w.Backends, b)
	w.mu.Unlock()
	w.Log(Event{Ev: "open", Backend: b.ID, Path: path, Gen: g})
	return b, nil
}

// View returns the generation a read returns now.
func (b *Backend) View() int { return int(atomic.LoadInt32(&b.view)) }

// touch records a use; a use of a closed backend is the C06 violation.
func (b *Backend) touch(method string) bool {
	open := atomic.LoadInt32(&b.openA) == 1
	if !open {
		b.W.Log(Event{Ev: "uac", Backend: b.ID, Method: method})
	}
	return open
}

// ErrClosed is what reads of a closed instrumented backend return (a real one would crash in cgo).
var ErrClosed = fmt.Errorf("sim: backend is closed")

// IsOpen reports whether Close has not been called.
func (b *Backend) IsOpen() bool {
	b.W.mu.Lock()
	defer b.W.mu.Unlock()
	return b.open
}

func (b *Backend) NewContext() db.Context {
	b.touch("NewContext")
	return simCtx{}
}

func (b *Backend) FreeContext(db.Context) {
	b.W.At("free")
	b.touch("FreeContext")
}

func (b *Backend) rows(key []byte) [][]byte {
	return b.W.genData(b.View())[string(key)]
}

func classOf(key []byte) string {
	switch {
	case bytes.Equal(key, ValidationKey()):
		return "valkey"
	case bytes.HasSuffix(key, []byte("\x04mail\x01z\x04test\x00")):
		return "extra"
	}
	return "other"
}

func (b *Backend) Find(key []byte, _ db.Context) ([]byte, error) {
	if !b.touch("Find") {
		return nil, ErrClosed
	}
	r := b.rows(key)
	if len(r) == 0 {
		return nil, io.EOF
	}
	return r[0], nil
}

func (b *Backend) ForEach(key []byte, f func(value []byte) error, _ db.Context) error {
	c := classOf(key)
	b.W.At("dbi:enter:" + c)
	if !b.touch("ForEach") {
		b.W.At("dbi:exit:" + c)
		return ErrClosed
	}
	rows := b.rows(key) // the view is read here
	b.W.At("dbi:exit:" + c)
	for _, v := range rows {
		if err := f(v); err != nil {
			return err
		}
	}
	return nil
}

func (b *Backend) FindMap(domain, mtype []byte, _ db.Context) ([]byte, error) {
	b.touch("FindMap")
	return nil, nil
}

func (b *Backend) GetLocationByMap(ipnet *net.IPNet, mapID []byte, _ db.Context) ([]byte, uint8, error) {
	b.touch("GetLocationByMap")
	return nil, 0, nil
}

func (b *Backend) Close() error {
	b.W.mu.Lock()
	was := b.open
	b.open = false
	atomic.StoreInt32(&b.openA, 0)
	b.closes++
	b.W.mu.Unlock()
	if !was {
		b.W.Log(Event{Ev: "dblclose", Backend: b.ID})
	} else {
		b.W.Log(Event{Ev: "close", Backend: b.ID})
	}
	return nil
}

// Reload is called by db.DB.Reload on its own goroutine.
func (b *Backend) Reload(path string) (db.DBI, error) {
	n := int(atomic.AddInt32(&b.W.reloads, 1))
	b.W.Register(fmt.Sprintf("g%d", n))
	defer b.W.Unregister()
	b.W.At("g:enter")
	var res db.DBI
	var err error
	if b.W.Kind == "rdb" && path == b.Path {
		// catch-up with the primary: the view moves in place
		b.touch("CatchUp")
		b.W.mu.Lock()
		g := b.W.Disk[path]
		b.W.mu.Unlock()
		atomic.StoreInt32(&b.view, int32(g))
		b.W.Log(Event{Ev: "loaded", ID: n, Gen: g, Backend: b.ID, Kind: "catchup", Path: path})
		res = b
	} else {
		nb, e := b.W.OpenBackend(path)
		if e != nil {
			err = e
			b.W.Log(Event{Ev: "loaded", ID: n, Gen: 0, Kind: "openerr", Path: path})
		} else {
			b.W.Log(Event{Ev: "loaded", ID: n, Gen: nb.View(), Backend: nb.ID, Kind: "open", Path: path})
			res = nb
		}
	}
	b.W.At("g:exit")
	if err != nil {
		return nil, err
	}
	return res, nil
}

func (b *Backend) GetStats() map[string]int64 {
	b.touch("GetStats")
	return map[string]int64{"sim.backend": int64(b.ID)}
}

func (b *Backend) ClosestKeyFinder() db.ClosestKeyFinder { return nil }

// OpenIDs lists the backends that are open now.
func (w *World) OpenIDs() []int {
	w.mu.Lock()
	defer w.mu.Unlock()
	out := []int{}
	for _, b := range w.Backends {
		if b.open {
			out = append(out, b.ID)
		}
	}
	return out
}

// Publish makes generation g the content of path.
func (w *World) Publish(path string, g int) {
	w.mu.Lock()
	w.Disk[path] = g
	w.mu.Unlock()
	w.Log(Event{Ev: "publish", Path: path, Gen: g})
}

// ReloadCount returns how many backend Reload calls were made so far.
func (w *World) ReloadCount() int { return int(atomic.LoadInt32(&w.reloads)) }
