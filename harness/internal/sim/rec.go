package sim

import (
	"net"
	"sort"
	"strconv"
	"strings"
	"sync"
	"time"

	"github.com/coredns/coredns/request"
	"github.com/miekg/dns"
)

// Stats records every counter call and is a seam ("stat:<key>") for the scheduler.
type Stats struct {
	W  *World
	mu sync.Mutex
	// per goroutine-proc list of counter keys incremented since the last Take
	calls map[string][]string
	Total map[string]int64
	// Served is the id the served instrumented backend reported through GetStats / ReportBackendStats
	Served int64
	// Quiet turns the recorder into a no-op (hot stress)
	Quiet bool
}

// NewStats creates a recording Stats.
func NewStats(w *World) *Stats {
	return &Stats{W: w, calls: map[string][]string{}, Total: map[string]int64{}}
}

func (s *Stats) rec(key string, n int64) {
	if s.Quiet {
		return
	}
	p := s.W.Proc()
	s.mu.Lock()
	s.calls[p] = append(s.calls[p], key)
	s.Total[key] += n
	s.mu.Unlock()
}

func (s *Stats) ResetCounterTo(key string, value int64) {
	if key == "sim.backend" {
		s.mu.Lock()
		s.Served = value
		s.mu.Unlock()
	}
}
func (s *Stats) ResetCounter(key string)                 {}
func (s *Stats) IncrementCounterBy(key string, value int64) {
	s.rec(key, value)
	s.W.At("stat:" + key)
}
func (s *Stats) IncrementCounter(key string) {
	s.rec(key, 1)
	s.W.At("stat:" + key)
}
func (s *Stats) AddSample(key string, value int64) {}

// Take returns and clears the counter keys recorded for the calling goroutine's proc.
func (s *Stats) Take(proc string) []string {
	s.mu.Lock()
	defer s.mu.Unlock()
	c := s.calls[proc]
	delete(s.calls, proc)
	return c
}

// Logger counts Log / LogFailed calls.
type Logger struct {
	W  *World
	mu sync.Mutex
	N  map[string]int
}

func (l *Logger) Log(state request.Request, r *dns.Msg, ecs *dns.EDNS0_SUBNET) {
	l.mu.Lock()
	if l.N == nil {
		l.N = map[string]int{}
	}
	l.N[l.W.Proc()+":log"]++
	l.mu.Unlock()
}

func (l *Logger) LogFailed(state request.Request, r *dns.Msg, ecs *dns.EDNS0_SUBNET) {
	l.mu.Lock()
	if l.N == nil {
		l.N = map[string]int{}
	}
	l.N[l.W.Proc()+":failed"]++
	l.mu.Unlock()
}

// Writer is a dns.ResponseWriter that keeps the message and is a seam ("write").
type Writer struct {
	W      *World
	Remote string
	Msg    *dns.Msg
	OnMsg  func(m *dns.Msg)
}

func (w *Writer) LocalAddr() net.Addr { return &net.UDPAddr{IP: net.ParseIP("127.0.0.1"), Port: 53} }
func (w *Writer) RemoteAddr() net.Addr {
	ip := w.Remote
	if ip == "" {
		ip = "10.1.2.3"
	}
	return &net.UDPAddr{IP: net.ParseIP(ip), Port: 40212}
}
func (w *Writer) WriteMsg(m *dns.Msg) error {
	if w.W != nil {
		w.W.At("write")
	}
	w.Msg = m
	if w.OnMsg != nil {
		w.OnMsg(m)
	}
	return nil
}
func (w *Writer) Write(b []byte) (int, error) { return len(b), nil }
func (w *Writer) Close() error                { return nil }
func (w *Writer) TsigStatus() error           { return nil }
func (w *Writer) TsigTimersOnly(bool)         {}
func (w *Writer) Hijack()                     {}

// StampsOf extracts the generation stamps a response of the stamped zone carries
// (MX preference, third octet of 10.0.g.x / 10.9.g.9 addresses, TXT gen=g, SOA serial).
func StampsOf(m *dns.Msg) []int {
	set := map[int]bool{}
	for _, sec := range [][]dns.RR{m.Answer, m.Ns, m.Extra} {
		for _, rr := range sec {
			switch x := rr.(type) {
			case *dns.MX:
				set[int(x.Preference)] = true
			case *dns.A:
				ip := x.A.To4()
				if ip != nil && ip[0] == 10 && (ip[1] == 0 || ip[1] == 9) {
					set[int(ip[2])] = true
				}
			case *dns.TXT:
				for _, t := range x.Txt {
					if strings.HasPrefix(t, "gen=") {
						if v, err := strconv.Atoi(t[4:]); err == nil {
							set[v] = true
						}
					}
				}
			case *dns.SOA:
				set[int(x.Serial)] = true
			}
		}
	}
	out := make([]int, 0, len(set))
	for g := range set {
		out = append(out, g)
	}
	sort.Ints(out)
	return out
}

// WaitUntil polls cond until it holds or the timeout expires.
func WaitUntil(d time.Duration, cond func() bool) bool {
	deadline := time.Now().Add(d)
	for {
		if cond() {
			return true
		}
		if time.Now().After(deadline) {
			return false
		}
		time.Sleep(50 * time.Microsecond)
	}
}
