----------------------------- MODULE QuoteTrace -----------------------------
(* Trace validation for C17.  Lines (written by `vh quote`):
     {"ev":"q","s":[bytes],"q":[bytes of Bquote(s)],"u":[bytes of Bunquote(q)],"err":""}
     {"ev":"field","kind":"txt|name|target","s":[bytes],"text":"re-serialised line","same":B,"payload":B,"err":""}
   q : Decode(q) = s, q free of separators, and the real decoder gave s back.
   field : a record whose text / owner / target holds s compiles to keys / values that hold exactly the bytes s
           (payload), and re-serialised by the real MarshalText and parsed again compiles to the same keys and values.        *)
EXTENDS Quote, Json, TLC

Trace == ndJsonDeserialize("trace.ndjson")
VARIABLE l

Verdict(e) ==
  IF e.ev = "q" THEN
    (IF e.err # "" THEN "unquote-failed"
     ELSE IF ~NoSep(e.q) THEN "separator-in-quoted-form"
     ELSE IF Decode(e.q) # e.s THEN "quoted-form-denotes-another-string"
     ELSE IF e.u # e.s THEN "unquote-differs"
     ELSE "ok")
  ELSE IF e.ev = "field" THEN
    (IF e.err # "" THEN "field-rejected" ELSE IF ~e.payload THEN "field-does-not-hold-the-string" ELSE IF ~e.same THEN "field-changed" ELSE "ok")
  ELSE "unknown-event"

Init == l = 1
Next == /\ l <= Len(Trace)
        /\ LET v == Verdict(Trace[l]) IN IF v = "ok" THEN TRUE ELSE PrintT(<<"REJECT", l, v>>)
        /\ l' = l + 1
Done == l = Len(Trace) + 1 => PrintT(<<"ACCEPTED", Len(Trace)>>)
Spec == Init /\ [][Next]_l
=============================================================================
