----------------------------- MODULE LineTrace -----------------------------
(* Trace validation for the first half of C09.  Lines (written by `vh lines`):
   {"ev":"line","text":"the line","t1":"MarshalText of the decoded record","t2":"MarshalText after decoding t1",
    "same":B (the line and t1 compile to the same keys and values),
    "t1c":"MarshalText of a record AFTER it has been compiled (MarshalMap) - the order of dnsrocks-selftest","err":""}                                     *)
EXTENDS Sequences, Integers, Json, TLC

Trace == ndJsonDeserialize("trace.ndjson")
VARIABLE l
Verdict(e) == IF e.err # "" THEN "well-formed-line-rejected"
              ELSE IF ~e.same THEN "normal-form-compiles-differently"
              ELSE IF e.t1 # e.t2 THEN "normal-form-not-stable"
              ELSE IF e.t1c # e.t1 THEN "compiling-a-record-changes-its-text"
              ELSE "ok"
Init == l = 1
Next == /\ l <= Len(Trace)
        /\ LET v == Verdict(Trace[l]) IN IF v = "ok" THEN TRUE ELSE PrintT(<<"REJECT", l, v>>)
        /\ l' = l + 1
Done == l = Len(Trace) + 1 => PrintT(<<"ACCEPTED", Len(Trace)>>)
Spec == Init /\ [][Next]_l
=============================================================================
