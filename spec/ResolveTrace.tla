---------------------------- MODULE ResolveTrace ----------------------------
(* Trace validation for the serving-semantics family (C01 C02 C03 C04 C10 C11): every response recorded from
   the real servers (CDB, CDB with per-family prefix-length sets, RocksDB v1 keys, RocksDB v2 keys) must be a
   response the property layer (Resolve.tla, Lpm.tla) allows for the data file it was compiled from.

   Lines (written by `vh sem`):
     {"ev":"file","id":N,"serial":S,"lines":[..abstract lines..],"backends":[..],"comperr":{..},"keep":B}
     {"ev":"q","q":{name,type,class,rip,edns,ecs,maxans,exact,cmp},"qid":K,"r":{backend: response}}
     {"ev":"loc","q":{kind,name,c},"r":{backend: [err,found,loc,mask,map,nil]}}
     {"ev":"rp","nets":[{f,b,len,loc}],"points":[{b,ml,null,loc}],"clients":[{f,b,len}]}   range-point table of the real Rearranger
   Verdicts are printed as <<"REJECT", line, backend, clause>>; clause names the property and the broken clause. *)
EXTENDS Resolve, Json

Trace == ndJsonDeserialize("trace.ndjson")

VARIABLES l, lines, recs, serial, memo, cmpclause
vars == <<l, lines, recs, serial, memo, cmpclause>>

SetOf(s) == {s[i] : i \in 1..Len(s)}

\* ---- one response of one backend
\* a reply that was cut to the client's buffer (TC) holds an arbitrary part of the answer: what is left is judged by the
\* transport checks (C13, C20), not here
JudgeResp(q, resp) ==
  IF ~Judgeable(q) \/ (resp.written /\ resp.tc) THEN "ok"
  ELSE LET cl == ClientLoc(lines, q)
           vs == {JudgeAt(recs, L, q, resp) : L \in cl.locs}
       IN IF "ok" \notin vs THEN CHOOSE v \in vs : TRUE ELSE JudgeOpt(cl, q, resp)

\* ---- C02 / C04: same answer from two servers (exact: address sets are complete, compare them too)
SameFull(r1, r2, exact) ==
  /\ SameBut(r1, r2)
  /\ exact => /\ SetOf(r1.an) = SetOf(r2.an)
               /\ {<<x.n, x.t>> : x \in SetOf(r1.ex)} = {<<x.n, x.t>> : x \in SetOf(r2.ex)}
\* replies cut to the client's buffer (TC) are not compared: they hold an arbitrary part of the answer
Same(r1, r2, exact) == (r1.written /\ r1.tc) \/ (r2.written /\ r2.tc) \/ SameFull(r1, r2, exact)

\* ---- C03: a location lookup through the real reader
JudgeLoc(q, o) ==
  IF o.err # "" THEN "C03:error"
  ELSE LET m0 == MapFor(lines, q.kind, q.name)
           \* resolver lookups of a name without a map use the default map 0; a client subnet without an ECS map decides nothing
           m == IF m0 = {} /\ q.kind = "M" THEN {0} ELSE m0 IN
       IF m = {} THEN (IF o.found THEN "C03:location-without-map" ELSE "ok")
       ELSE LET mm == CHOOSE x \in m : TRUE
                nets == {n \in Nets(lines) : n.map = mm}
                k == LpmLen(nets, q.c)
            IN IF k < 0 THEN (IF o.found THEN "C03:location-without-subnet" ELSE "ok")
               ELSE IF ~o.found THEN "C03:subnet-missed"
               ELSE IF o.map # mm THEN "C03:wrong-map"
               ELSE IF o.loc \notin LpmLocs(nets, q.c) THEN "C03:not-longest-prefix"
               ELSE IF o.mask # k THEN "C03:mask"
               ELSE "ok"

Report(b, v) == IF v = "ok" THEN TRUE ELSE PrintT(<<"REJECT", l, b, v>>)

\* ---- C03, first observation point: the range-point table the real Rearranger derives from the subnets of one map,
\* read the way the RocksDB driver reads it - the greatest key (address, mask byte) that is <= (client address,
\* client prefix length), mask byte 0 for a point without location - must give longest-prefix match for every client.
\* point == [b: 16 bytes, ml: mask length, null: BOOLEAN, loc]
RECURSIVE BytesLeq(_, _, _)
BytesLeq(a, b, i) == IF i > 16 THEN TRUE ELSE IF a[i] < b[i] THEN TRUE ELSE IF a[i] > b[i] THEN FALSE ELSE BytesLeq(a, b, i + 1)
PKey(p) == [b |-> p.b, m |-> IF p.null THEN 0 ELSE p.ml]
KeyLeq(k1, k2) == IF k1.b = k2.b THEN k1.m <= k2.m ELSE BytesLeq(k1.b, k2.b, 1)
TableLookup(pts, c) ==
  LET ck == [b |-> c.b, m |-> c.len]
      below == {i \in 1..Len(pts) : KeyLeq(PKey(pts[i]), ck)}
  IN IF below = {} THEN [found |-> FALSE, loc |-> 0, ml |-> 0, dup |-> FALSE]
     ELSE LET i == CHOOSE i \in below : \A j \in below : KeyLeq(PKey(pts[j]), PKey(pts[i]))
              dup == \E j \in 1..Len(pts) : j # i /\ PKey(pts[j]) = PKey(pts[i])
          IN [found |-> ~pts[i].null, loc |-> pts[i].loc, ml |-> pts[i].ml, dup |-> dup]
JudgeTable(nets, pts, c) ==
  LET r == TableLookup(pts, c)
      k == LpmLen(nets, c)
  IN IF r.dup THEN "C03:table-two-points-under-one-key"
     ELSE IF k < 0 THEN (IF r.found THEN "C03:table-location-without-subnet" ELSE "ok")
     ELSE IF ~r.found THEN "C03:table-subnet-missed"
     ELSE IF r.loc \notin LpmLocs(nets, c) THEN "C03:table-not-longest-prefix"
     ELSE IF r.ml # k THEN "C03:table-mask"
     ELSE "ok"
CheckTable(e) ==
  LET nets == {[f |-> n.f, b |-> n.b, len |-> n.len, loc |-> n.loc, map |-> 0] : n \in SetOf(e.nets)} IN
  \A i \in 1..Len(e.clients) : Report("rearranger", JudgeTable(nets, e.points, e.clients[i]))

\* a response the specification rejects for the client's location but would accept had the server answered from a
\* wrong set of records (tagged only / untagged only / all locations / another location) breaks C04's first sentence
WrongView(q, resp) ==
  /\ Judgeable(q)
  /\ LET cl == ClientLoc(lines, q) IN
     /\ \A L \in cl.locs : JudgeAt(recs, L, q, resp) # "ok"
     /\ \E L \in cl.locs : \E V \in WrongViews(recs, L) : V # Visible(recs, L) /\ JudgeV(V, q, resp) = "ok"

\* ---- C19: what the handler told its Stats and Logger while it served one query, against the response it sent
Cnt(c, k) == IF k \in DOMAIN c THEN c[k] ELSE 0
One(b) == IF b THEN 1 ELSE 0
JudgeCounters(r, cache) ==
  LET c == r.counters IN
  IF Cnt(c, "DNS_queries") # 1 THEN "C19:query-counter"
  ELSE IF r.typekeys # 1 \/ r.typekeynamed # 1 THEN "C19:type-counter"
  ELSE IF ~r.written THEN "ok"                                          \* a bare failure: not a composed response
  ELSE IF r.nlog # 1 \/ r.nlogfailed # 0 THEN "C19:logger-calls"
  ELSE IF ~r.logsame THEN "C19:logged-message-differs"
  ELSE IF Cnt(c, "DNS_queries_notauthoritative") # One(~r.aa) THEN "C19:notauthoritative-counter"
  ELSE IF Cnt(c, "DNS_queries_nxdomain") # One(r.rcode = 3) THEN "C19:nxdomain-counter"
  ELSE IF Cnt(c, "DNS_queries_refused") # One(r.rcode = 5) THEN "C19:refused-counter"
  ELSE IF Cnt(c, "DNS_queries_badvers") # One(r.rcode = 16) THEN "C19:badvers-counter"
  ELSE IF Cnt(c, "DNS_queries_nodata") # One(r.rcode = 0 /\ r.an = <<>>) THEN "C19:nodata-counter"
  ELSE IF Cnt(c, "DNS_cache.hit") + Cnt(c, "DNS_cache.missed") + Cnt(c, "DNS_cache.expired") # One(cache /\ r.rcode # 16) THEN "C19:cache-counter"
  ELSE IF Cnt(c, "DNS_location.ecs") + Cnt(c, "DNS_location.empty") + Cnt(c, "DNS_location.default") + Cnt(c, "DNS_location.fallback_default")
          + Cnt(c, "DNS_location.resolver") # One(r.rcode # 16) THEN "C19:location-counter"
  ELSE "ok"

CheckQ(e) ==
  /\ \A b \in DOMAIN e.r : Report(b, JudgeResp(e.q, e.r[b]))
  /\ e.rec => \A b \in DOMAIN e.r : Report(b, JudgeCounters(e.r[b], e.cache))
  /\ \A b \in DOMAIN e.r : WrongView(e.q, e.r[b]) => PrintT(<<"REJECT", l, b, "C04:wrong-visibility">>)
  /\ \A b1, b2 \in DOMAIN e.r :
        (b1 # b2 /\ ~Same(e.r[b1], e.r[b2], e.q.exact)) => PrintT(<<"REJECT", l, b1, "C02:backends-differ", b2>>)
  /\ (e.q.cmp /\ e.qid \in DOMAIN memo) =>
        \A b \in DOMAIN e.r :
           (b \in DOMAIN memo[e.qid] /\ ~Same(e.r[b], memo[e.qid][b], e.q.exact)) => PrintT(<<"REJECT", l, b, cmpclause>>)

CheckLoc(e) == \A b \in DOMAIN e.r : Report(b, JudgeLoc(e.q, e.r[b]))

\* ---- C11 proportionality: a single-address query asked n times; counts[b] = <<[rd, c]>> how often each address
\* was the one served.  Candidates and weights come from the specification; the observed frequency of every
\* candidate must be within 6 standard deviations of n * w / W (integer arithmetic, all products < 2^31).
RECURSIVE SumWt(_)
SumWt(S) == IF S = {} THEN 0 ELSE LET x == CHOOSE x \in S : TRUE IN x.wt + SumWt(S \ {x})
CountOf(cs, rd) == LET m == {i \in 1..Len(cs) : cs[i].rd = rd} IN IF m = {} THEN 0 ELSE cs[CHOOSE i \in m : TRUE].c
FreqOk(cnt, w, W, n) ==
  LET d == cnt * W - n * w IN
  /\ (w = 0 => cnt = 0)
  /\ d <= 40000 /\ d >= -40000
  /\ d * d <= 36 * n * w * (W - w)
RECURSIVE Gcd(_, _)
Gcd(a, b) == IF b = 0 THEN a ELSE Gcd(b, a % b)
RECURSIVE GcdAll(_, _)
GcdAll(S, g) == IF S = {} THEN g ELSE LET x == CHOOSE x \in S : TRUE IN GcdAll(S \ {x}, Gcd(x, g))
JudgeFreq(q, n, cs, other) ==
  LET cl == ClientLoc(lines, q)
      L == CHOOSE x \in cl.locs : TRUE
      V == Visible(recs, L)
      sufs == Suffixes(q.name)
      ci == CutIndex(V, sufs)
  IN IF ci = 0 \/ Cardinality(cl.locs) # 1 THEN "ok"
     ELSE LET lk == Lookup(V, sufs, ci)
              cands == {r \in lk.recs : r.ty = q.type}
              \* only the ratios matter: huge weights (10^9 : 2 * 10^9, 2^32-1 : 2^32-1) are divided by their gcd first
              g == GcdAll({c.wt : c \in cands}, 0)
              Ws == IF g = 0 THEN 0 ELSE SumWt({[wt |-> c.wt \div g, rd |-> c.rd] : c \in cands})
          IN IF g = 0 \/ Ws > 12 \/ n > 20000 THEN "ok"            \* outside the arithmetic range: not judged
             ELSE IF other # 0 THEN "C11:not-one-address"
             ELSE IF \E i \in 1..Len(cs) : cs[i].rd \notin {c.rd : c \in cands} THEN "C11:served-undeclared"
             ELSE IF \E c \in cands : ~FreqOk(CountOf(cs, c.rd), c.wt \div g, Ws, n) THEN "C11:proportion"
             ELSE "ok"
CheckFreq(e) == \A b \in DOMAIN e.counts : Report(b, JudgeFreq(e.q, e.n, e.counts[b], e.other[b]))

CheckFile(e) == \A b \in DOMAIN e.comperr : PrintT(<<"REJECT", l, b, "C01:compile-failed">>)

\* the paired comparison (memo) serves C04 (file vs edited file) and C12 (cache off vs cache on): the file line names the clause
DefaultClause == "C04:changed-by-foreign-edit"
Init == l = 1 /\ lines = {} /\ recs = {} /\ serial = 0 /\ memo = <<>> /\ cmpclause = DefaultClause

Next ==
  /\ l <= Len(Trace)
  /\ LET e == Trace[l] IN
       CASE e.ev = "file" ->
              /\ CheckFile(e)
              /\ lines' = SetOf(e.lines)
              /\ serial' = e.serial
              /\ recs' = Records(SetOf(e.lines), e.serial)
              /\ memo' = IF e.keep THEN memo ELSE <<>>
              /\ cmpclause' = IF e.clause = "" THEN DefaultClause ELSE e.clause
         [] e.ev = "q" ->
              /\ CheckQ(e)
              /\ memo' = IF e.q.cmp THEN memo ELSE (e.qid :> e.r) @@ memo
              /\ UNCHANGED <<lines, recs, serial, cmpclause>>
         [] e.ev = "freq" ->
              /\ CheckFreq(e)
              /\ UNCHANGED <<lines, recs, serial, memo, cmpclause>>
         [] e.ev = "rp" ->
              /\ CheckTable(e)
              /\ UNCHANGED <<lines, recs, serial, memo, cmpclause>>
         [] e.ev = "loc" ->
              /\ CheckLoc(e)
              /\ UNCHANGED <<lines, recs, serial, memo, cmpclause>>
  /\ l' = l + 1

Done == l = Len(Trace) + 1 => PrintT(<<"ACCEPTED", Len(Trace)>>)
Spec == Init /\ [][Next]_vars
=============================================================================
