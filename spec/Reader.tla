------------------------------- MODULE Reader -------------------------------
(* Implementation layer of C02 (and of the reader half of C04): the label-by-label search of db.DataReader (CDB and
   RocksDB v1 keys) against the closest-key search of db.sortedDataReader (RocksDB v2 keys: reversed names, location
   as key suffix, SeekForPrev on a sorted key set, per-request context cache shared by get and FindClosest).
   A request is the whole handler sequence that shares one context: IsAuthoritative -> FindAnswer -> SOA | NS of the
   cut -> additional lookups; results are sets of (origin name, origin location, row), so a row served from the
   wrong key is visible.  TLC checks Equiv for every database of <= K entries on top of the zone skeleton and
   prints every database (Emit); the check renders them to data files and asks the real servers.
   FixBorder / FixCache name two defects the code had (F14, F1 in KNOWN_FINDINGS.json): TRUE = repaired.          *)
EXTENDS Integers, Sequences, FiniteSets, TLC, Json

CONSTANTS K,            \* number of free entries on top of the skeleton
          FixBorder,    \* TRUE: zone-border check uses the current length (ideal); FALSE: as in the code
          FixCache,     \* TRUE: get() ignores cache entries whose found key differs (ideal); FALSE: as in the code
          EmitJson      \* TRUE: print every database (generator mode)

\* ---------------------------------------------------------------- bytes, labels, names
LA == <<97>>          \* "a"
LB == <<98, 98>>      \* "bb"
LX == <<97, 33>>      \* "a!"  not wild-safe
WildSafeByte(c) == (c >= 97 /\ c <= 122) \/ (c >= 48 /\ c <= 57) \/ c = 45 \/ c = 95
WildSafe(l) == \A i \in 1..Len(l) : WildSafeByte(l[i])

RECURSIVE Pack(_)
Pack(n) == IF n = <<>> THEN <<0>> ELSE <<Len(Head(n))>> \o Head(n) \o Pack(Tail(n))
RECURSIVE RevSeq(_)
RevSeq(s) == IF s = <<>> THEN <<>> ELSE RevSeq(Tail(s)) \o <<Head(s)>>
PackRev(n) == Pack(RevSeq(n))

Locs == {0, 1, 2}
LocBytes(l) == <<0, l>>

RECURSIVE LexLeq(_, _)
LexLeq(a, b) == IF a = <<>> THEN TRUE
                ELSE IF b = <<>> THEN FALSE
                ELSE IF Head(a) < Head(b) THEN TRUE
                ELSE IF Head(a) > Head(b) THEN FALSE
                ELSE LexLeq(Tail(a), Tail(b))

Z  == <<LB>>                 \* zone apex  "bb."
S  == <<LA, LB>>             \* "a.bb."  (may become a nested zone / delegation)
Names == { Z, S, <<LB, LB>>, <<LX, LB>>, <<LA, LA, LB>>, <<LB, LA, LB>>, <<LA, LB, LB>>, <<LA>> }
QNames == Names \cup { <<LB, LB, LB>>, <<LX, LA, LB>> }

Kinds == {"A", "AW", "NS", "ZN", "H"}
RowsOf(kind) == CASE kind = "A"  -> {[t |-> "A", w |-> FALSE]}
                  [] kind = "AW" -> {[t |-> "A", w |-> TRUE]}
                  [] kind = "NS" -> {[t |-> "NS", w |-> FALSE]}
                  [] kind = "ZN" -> {[t |-> "SOA", w |-> FALSE], [t |-> "NS", w |-> FALSE]}
                  [] kind = "H"  -> {[t |-> "H", w |-> FALSE]}
Entries == [n : Names, loc : Locs, kind : Kinds]
Skeleton == {[n |-> Z, loc |-> 0, kind |-> "ZN"]}

VARIABLE db
Init == db = Skeleton
Next == /\ Cardinality(db) < K + 1
        /\ \E e \in Entries \ db : db' = db \cup {e}
Spec == Init /\ [][Next]_db

Rows(n, l) == UNION { RowsOf(e.kind) : e \in {x \in db : x.n = n /\ x.loc = l} }
Has(n, l) == \E e \in db : e.n = n /\ e.loc = l

\* ---------------------------------------------------------------- V1: label-by-label (DataReader)
RECURSIVE V1Auth(_, _, _, _)
V1Auth(zc, l, ns, auth) ==
  LET r1 == IF l # 0 THEN {r \in Rows(zc, l) : ~r.w} ELSE {}
      a1 == auth \/ (\E r \in r1 : r.t = "SOA")
      n1 == ns \/ (\E r \in r1 : r.t = "NS")
      r2 == IF ~(a1 /\ n1) THEN {r \in Rows(zc, 0) : ~r.w} ELSE {}
      a2 == a1 \/ (\E r \in r2 : r.t = "SOA")
      n2 == n1 \/ (\E r \in r2 : r.t = "NS")
  IN IF n2 \/ zc = <<>> THEN [ns |-> n2, auth |-> a2, cut |-> zc]
     ELSE V1Auth(Tail(zc), l, n2, a2)

Used(n, l, rows) == { <<n, l, r>> : r \in rows }

RECURSIVE V1Ans(_, _, _, _, _)
V1Ans(q, cut, l, qt, wild) ==
  LET r1 == IF l # 0 THEN {r \in Rows(q, l) : r.w = wild} ELSE {}
      r2 == {r \in Rows(q, 0) : r.w = wild}
      found == r1 # {} \/ r2 # {}
      ans == Used(q, l, {r \in r1 : r.t = qt}) \cup Used(q, 0, {r \in r2 : r.t = qt})
  IN IF found THEN [found |-> TRUE, ans |-> ans]
     ELSE IF q = cut \/ q = <<>> \/ ~WildSafe(Head(q)) THEN [found |-> FALSE, ans |-> {}]
     ELSE V1Ans(Tail(q), cut, l, qt, TRUE)

V1RR(n, l) == (IF l # 0 THEN Used(n, l, Rows(n, l)) ELSE {}) \cup Used(n, 0, Rows(n, 0))

V1Request(q, l, qt) ==
  LET a == V1Auth(q, l, FALSE, FALSE) IN
  IF ~a.ns /\ ~a.auth THEN [rc |-> "REFUSED"]
  ELSE IF ~a.auth THEN [rc |-> "REFERRAL", cut |-> a.cut, nsr |-> {u \in V1RR(a.cut, l) : u[3].t = "NS" /\ ~u[3].w}]
  ELSE LET f == V1Ans(q, a.cut, l, qt, FALSE) IN
       [rc |-> IF f.ans = {} /\ ~f.found THEN "NX" ELSE "OK", cut |-> a.cut, ans |-> f.ans,
        soa |-> IF f.ans = {} THEN {u \in V1RR(a.cut, l) : u[3].t = "SOA" /\ ~u[3].w} ELSE {},
        add |-> IF \E u \in f.ans : u[3].t = "H" THEN {u \in V1RR(q, l) : u[3].t = "A" /\ ~u[3].w} ELSE {}]

\* ---------------------------------------------------------------- V2: sorted keys + closest key (sortedDataReader)
Marker == <<0, 111>>
V2Key(n, l) == Marker \o PackRev(n) \o LocBytes(l)
Below == <<0, 77, 1, 97, 0, 61>>              \* a map key  "\000M" ... : sorts below the RR key space
Above == <<0, 111, 95, 102>>                  \* "\000o_f..." the features key: sorts above every RR key
KeySet == { V2Key(e.n, e.loc) : e \in db } \cup {Below, Above}
KeyEntry(k) == CHOOSE p \in Names \X Locs : V2Key(p[1], p[2]) = k
IsRR(k) == \E p \in Names \X Locs : V2Key(p[1], p[2]) = k /\ Has(p[1], p[2])

SeekForPrev(k) == LET c == {x \in KeySet : LexLeq(x, k)} IN
                  IF c = {} THEN <<>> ELSE CHOOSE x \in c : \A y \in c : LexLeq(y, x)

\* context cache: function from search key -> [fk, origin]; origin = key whose rows are the cached data (<<>> = none)
CGet(cache, key) ==        \* rdb.get
  IF key \in DOMAIN cache /\ (~FixCache \/ cache[key].fk = key)
    THEN [origin |-> cache[key].origin, cache |-> cache]
    ELSE LET o == IF key \in KeySet THEN key ELSE <<>> IN
         [origin |-> o, cache |-> [x \in (DOMAIN cache) \cup {key} |-> IF x = key THEN [fk |-> key, origin |-> o] ELSE cache[x]]]

CClosest(cache, key) ==    \* rdb.FindClosest
  IF key \in DOMAIN cache THEN [fk |-> cache[key].fk, cache |-> cache]
  ELSE LET fk == SeekForPrev(key)
           e == [fk |-> fk, origin |-> fk]
       IN [fk |-> fk, cache |-> [x \in (DOMAIN cache) \cup {key, fk} |-> IF x = key \/ x = fk THEN e ELSE cache[x]]]

OriginRows(o) == IF o = <<>> \/ ~IsRR(o) THEN {} ELSE LET p == KeyEntry(o) IN Used(p[1], p[2], Rows(p[1], p[2]))

\* TryForEach: returns found key, rows (if exact), cache
TryForEach(cache, key) ==
  LET c == CClosest(cache, key) IN
  IF c.fk = key THEN LET g == CGet(c.cache, key) IN [fk |-> c.fk, rows |-> OriginRows(g.origin), cache |-> g.cache]
  ELSE [fk |-> c.fk, rows |-> {}, cache |-> c.cache]

At(s, i) == s[i + 1]                       \* 0-based access
Slice(s, a, b) == SubSeq(s, a + 1, b)      \* s[a:b] 0-based, b exclusive

RECURSIVE GLW(_, _, _, _)
GLW(r, qLen, i, last) == IF i < qLen - 1 THEN GLW(r, qLen, i + At(r, i) + 1, i) ELSE last + 1

RECURSIVE FCLP(_, _, _)
FCLP(s1, s2, i) ==
  IF i < Len(s1) /\ i < Len(s2) /\ At(s1, i) = At(s2, i)
     /\ (\A j \in (i + 1)..(i + At(s1, i)) : j < Len(s2) /\ j < Len(s1) /\ At(s1, j) = At(s2, j))
  THEN FCLP(s1, s2, i + At(s1, i) + 1) ELSE i

\* wild-safety of the labels of r between byte offsets `from` and `to` (preIterationCheck of FindAnswer)
RECURSIVE SafeBetween(_, _, _)
SafeBetween(r, i, to) == IF i < to
                         THEN LET ll == At(r, i - 1) IN WildSafe(Slice(r, i, i + ll)) /\ SafeBetween(r, i + ll + 1, to)
                         ELSE TRUE

\* generic find loop. mode = "auth" | "ans".  st carries the client's state.
RECURSIVE Find(_, _, _, _, _, _, _)
Find(mode, r, l, qLen, st, cache, cutLen) ==
  LET pre == IF mode = "auth" THEN TRUE
             ELSE (IF FixBorder THEN qLen >= cutLen ELSE Len(r) >= cutLen) /\ SafeBetween(r, qLen, st.lastLen)
  IN IF ~pre THEN [st |-> st, cache |-> cache]
  ELSE
  LET st0  == IF mode = "auth" THEN [st EXCEPT !.zcLen = qLen] ELSE [st EXCEPT !.lastLen = qLen]
      name == Slice(r, 0, qLen - 1) \o <<0>>
      key1 == Marker \o name \o LocBytes(l)
      t1   == TryForEach(cache, key1)
      same == l # 0 /\ Len(key1) = Len(t1.fk) /\ Slice(key1, 0, Len(key1) - 2) = Slice(t1.fk, 0, Len(key1) - 2)
      key2 == Marker \o name \o LocBytes(0)
      t2   == IF same THEN TryForEach(t1.cache, key2) ELSE [fk |-> t1.fk, rows |-> {}, cache |-> t1.cache]
      rows == t1.rows \cup t2.rows
      k    == t2.fk
      st1  == IF mode = "auth"
                THEN [st0 EXCEPT !.ns = @ \/ (\E u \in rows : u[3].t = "NS" /\ ~u[3].w),
                                 !.auth = @ \/ (\E u \in rows : u[3].t = "SOA" /\ ~u[3].w)]
                ELSE LET m == {u \in rows : u[3].w = st0.wild} IN
                     [st0 EXCEPT !.found = @ \/ m # {}, !.ans = @ \cup {u \in m : u[3].t = st0.qt}]
      cont == IF mode = "auth" THEN ~st1.ns ELSE ~st1.found
      st2  == IF mode = "ans" /\ cont THEN [st1 EXCEPT !.wild = TRUE] ELSE st1
  IN IF ~cont THEN [st |-> st2, cache |-> t2.cache]
     ELSE IF Len(k) < 2 \/ Slice(k, 0, 2) # Marker THEN [st |-> st2, cache |-> t2.cache]
     ELSE IF qLen = 1 THEN [st |-> st2, cache |-> t2.cache]
     ELSE LET fl == Slice(k, 2, Len(k) - 2)
              nl == IF Slice(r, 0, qLen - 1) = Slice(fl, 0, Len(fl) - 1) THEN GLW(r, qLen, 0, 0) ELSE FCLP(r, fl, 0) + 1
          IN Find(mode, r, l, nl, st2, t2.cache, cutLen)

V2RR(cache, n, l) ==
  LET g1 == IF l # 0 THEN CGet(cache, V2Key(n, l)) ELSE [origin |-> <<>>, cache |-> cache]
      g2 == CGet(g1.cache, V2Key(n, 0))
  IN [rows |-> OriginRows(g1.origin) \cup OriginRows(g2.origin), cache |-> g2.cache]

\* name (label sequence) of the suffix of q whose packed length is n bytes
RECURSIVE SuffixOfLen(_, _)
SuffixOfLen(q, n) == IF Len(Pack(q)) = n THEN q ELSE SuffixOfLen(Tail(q), n)

Empty == [x \in {} |-> 0]

V2Request(q, l, qt) ==
  LET r  == PackRev(q)
      fa == Find("auth", r, l, Len(r), [ns |-> FALSE, auth |-> FALSE, zcLen |-> 0], Empty, 0)
      a  == fa.st
      cut == SuffixOfLen(q, a.zcLen)
  IN IF ~a.ns /\ ~a.auth THEN [rc |-> "REFUSED"]
  ELSE IF ~a.auth THEN LET x == V2RR(fa.cache, cut, l) IN
       [rc |-> "REFERRAL", cut |-> cut, nsr |-> {u \in x.rows : u[3].t = "NS" /\ ~u[3].w}]
  ELSE LET ff == Find("ans", r, l, Len(r), [found |-> FALSE, ans |-> {}, wild |-> FALSE, qt |-> qt, lastLen |-> Len(r)], fa.cache, Len(Pack(cut)))
           f  == ff.st
           x  == IF f.ans = {} THEN V2RR(ff.cache, cut, l) ELSE [rows |-> {}, cache |-> ff.cache]
           y  == IF \E u \in f.ans : u[3].t = "H" THEN V2RR(x.cache, q, l) ELSE [rows |-> {}, cache |-> x.cache]
       IN [rc |-> IF f.ans = {} /\ ~f.found THEN "NX" ELSE "OK", cut |-> cut, ans |-> f.ans,
           soa |-> {u \in x.rows : u[3].t = "SOA" /\ ~u[3].w},
           add |-> {u \in y.rows : u[3].t = "A" /\ ~u[3].w}]

Emit == EmitJson => PrintT(ToJson(db \ Skeleton))
Equiv == \A q \in QNames, l \in Locs, qt \in {"A", "H"} : V2Request(q, l, qt) = V1Request(q, l, qt)
=============================================================================
