------------------------------ MODULE MVStore ------------------------------
(***************************************************************************)
(* Property layer for C15 (and the result type of C07 / C08): the RocksDB  *)
(* multi-value store seen as a map from key to list of values.             *)
(*                                                                         *)
(* A store is a function whose DOMAIN is the set of present keys and whose *)
(* values are NON-EMPTY sequences (a key disappears with its last value).  *)
(* Operators are pure; stateful specs (MVStoreMC, MVStoreTrace, Diff,      *)
(* Compile) build on them.                                                 *)
(***************************************************************************)
EXTENDS Sequences, Integers, FiniteSets

Empty == [k \in {} |-> <<>>]

Get(s, k) == IF k \in DOMAIN s THEN s[k] ELSE <<>>

Put(s, k, vs) ==
  IF vs = <<>> THEN [x \in (DOMAIN s) \ {k} |-> s[x]]
  ELSE [x \in (DOMAIN s) \cup {k} |-> IF x = k THEN vs ELSE s[x]]

Has(vs, v) == \E i \in 1..Len(vs) : vs[i] = v

FirstIdx(vs, v) == CHOOSE i \in 1..Len(vs) : vs[i] = v /\ \A j \in 1..(i - 1) : vs[j] # v

RemoveAt(vs, i) == SubSeq(vs, 1, i - 1) \o SubSeq(vs, i + 1, Len(vs))

RemoveFirst(vs, v) == RemoveAt(vs, FirstIdx(vs, v))

\* bag (multiset) of a sequence, as a function value -> count
RangeOf(vs) == {vs[i] : i \in 1..Len(vs)}
BagOf(vs) == [v \in RangeOf(vs) |-> Cardinality({i \in 1..Len(vs) : vs[i] = v})]
SameBag(a, b) == BagOf(a) = BagOf(b)

\* equality of two stores as "map from key to multiset of values" (C07, C08, batches)
SameStoreBag(s, t) == DOMAIN s = DOMAIN t /\ \A k \in DOMAIN s : SameBag(s[k], t[k])

-----------------------------------------------------------------------------
\* Single operations.  Each returns [ok, s]; a failing operation returns the store unchanged.

Add(s, k, v) == [ok |-> TRUE, s |-> Put(s, k, Append(Get(s, k), v))]

DelErr(s, k, v) == IF k \notin DOMAIN s THEN "nxkey" ELSE IF ~Has(s[k], v) THEN "nxval" ELSE "none"

Del(s, k, v) ==
  IF DelErr(s, k, v) # "none" THEN [ok |-> FALSE, s |-> s]
  ELSE [ok |-> TRUE, s |-> Put(s, k, RemoveFirst(s[k], v))]

\* A batch is two sequences of <<key, value>> pairs.  All additions first, then all deletions, atomically.
RECURSIVE ApplyAdds(_, _)
ApplyAdds(s, adds) == IF adds = <<>> THEN s
                      ELSE ApplyAdds(Add(s, Head(adds)[1], Head(adds)[2]).s, Tail(adds))

RECURSIVE ApplyDels(_, _)
ApplyDels(s, dels) ==
  IF dels = <<>> THEN [ok |-> TRUE, s |-> s]
  ELSE LET d == Del(s, Head(dels)[1], Head(dels)[2])
       IN IF ~d.ok THEN [ok |-> FALSE, s |-> s] ELSE ApplyDels(d.s, Tail(dels))

ExecBatch(s, adds, dels) ==
  LET r == ApplyDels(ApplyAdds(s, adds), dels)
  IN IF r.ok THEN r ELSE [ok |-> FALSE, s |-> s]

=============================================================================
