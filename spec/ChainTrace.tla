----------------------------- MODULE ChainTrace -----------------------------
(* Trace validation for C20.  Lines (written by `vh chain`):
   {"ev":"x","cfg":{whoami,refuse_any,maxans},"name":N,"type":T,"nq":K,"proto":"udp|tcp","buf":B,"listener":L,"is_whoami":B,
    "received":B,"alive":B,"t":response over the wire,"i":response of the bare handler}                          *)
EXTENDS Chain
Trace == ndJsonDeserialize("trace.ndjson")
VARIABLE l
TInit == l = 1 /\ c = 0
TNext == /\ l <= Len(Trace)
         /\ LET v == Verdict(Trace[l]) IN IF v = "ok" THEN TRUE ELSE PrintT(<<"REJECT", l, v>>)
         /\ l' = l + 1 /\ UNCHANGED c
Done == l = Len(Trace) + 1 => PrintT(<<"ACCEPTED", Len(Trace)>>)
TSpec == TInit /\ [][TNext]_<<l, c>>
=============================================================================
