----------------------------- MODULE MVStoreGen -----------------------------
(* Behaviour generator for C15: enumerates every history of length N over the bounded operation
   alphabet (no VIEW: distinct histories are distinct states) and prints each complete history with
   the store the property layer expects after every step.  The harness replays them on RocksDB. *)
EXTENDS MVStore, Json, TLC

CONSTANTS N,          \* history length
          BatchMode,  \* 0: single ops only; 1: batches only as last op; 2: batches anywhere
          MaxBA, MaxBD \* bounds on the number of additions / deletions in one batch

Keys == {"k1", "k2"}
Vals == {"", "a", "ab", "b"}
Pairs == Keys \X Vals
PairSeqs(n) == UNION {[1..m -> Pairs] : m \in 0..n}
Batches == {[op |-> "batch", adds |-> a, dels |-> d] : a \in PairSeqs(MaxBA), d \in PairSeqs(MaxBD)} \ {[op |-> "batch", adds |-> <<>>, dels |-> <<>>]}
Singles == {[op |-> o, k |-> p[1], v |-> p[2]] : o \in {"add", "del"}, p \in Pairs}

VARIABLES hist, store
Init == hist = <<>> /\ store = Empty

Apply(s, o) == IF o.op = "add" THEN Add(s, o.k, o.v)
               ELSE IF o.op = "del" THEN Del(s, o.k, o.v)
               ELSE ExecBatch(s, o.adds, o.dels)
Exp(s) == [k \in Keys |-> Get(s, k)]

Ops == IF BatchMode = 0 THEN Singles
       ELSE IF BatchMode = 1 THEN (IF Len(hist) = N - 1 THEN Batches ELSE Singles)
       ELSE Singles \cup Batches

Next == /\ Len(hist) < N
        /\ \E o \in Ops :
             LET r == Apply(store, o) IN
             /\ hist' = Append(hist, [o |-> o, ok |-> r.ok, exp |-> Exp(r.s)])
             /\ store' = r.s
Emit == Len(hist) = N => PrintT(ToJson(hist))
Spec == Init /\ [][Next]_<<hist, store>>
=============================================================================
