----------------------------- MODULE MVStoreGen -----------------------------
(* Behaviour generator for C15: enumerates every history of length N over the bounded operation
   alphabet (no VIEW: distinct histories are distinct states) and prints each complete history with
   the store the property layer expects after every step.  The harness replays them on RocksDB. *)
EXTENDS MVStore, Json, TLC

CONSTANTS N,          \* history length
          BatchMode,  \* 0: single ops only; 1: batches only as last op; 2: batches anywhere; 3: see below
          MaxBA, MaxBD \* bounds on the number of additions / deletions in one batch

Keys == {"k1", "k2"}
Vals == {"", "a", "ab", "b"}
Pairs == Keys \X Vals
PairSeqs(n) == UNION {[1..m -> Pairs] : m \in 0..n}
Batches == {[op |-> "batch", adds |-> a, dels |-> d] : a \in PairSeqs(MaxBA), d \in PairSeqs(MaxBD)} \ {[op |-> "batch", adds |-> <<>>, dels |-> <<>>]}
Singles == {[op |-> o, k |-> p[1], v |-> p[2]] : o \in {"add", "del"}, p \in Pairs}

VARIABLES hist, store
Init == hist = <<>> /\ store = Empty

Apply(s, o) == IF o.op = "add" THEN Add(s, o.k, o.v)
               ELSE IF o.op = "del" THEN Del(s, o.k, o.v)
               ELSE ExecBatch(s, o.adds, o.dels)
Exp(s) == [k \in Keys |-> Get(s, k)]

\* mode 3: pre-populate with one additions-only batch, then one deletions-only batch (two values only, so that
\* longer batches stay enumerable): covers repeated, interleaved keys inside a batch of deletions
SmallPairs == Keys \X {"a", "b"}
SmallSeqs(n) == UNION {[1..m -> SmallPairs] : m \in 1..n}
AddOnly == {[op |-> "batch", adds |-> a, dels |-> <<>>] : a \in SmallSeqs(MaxBA)}
DelOnly == {[op |-> "batch", adds |-> <<>>, dels |-> d] : d \in SmallSeqs(MaxBD)}

Ops == IF BatchMode = 0 THEN Singles
       ELSE IF BatchMode = 1 THEN (IF Len(hist) = N - 1 THEN Batches ELSE Singles)
       ELSE IF BatchMode = 3 THEN (IF Len(hist) = 0 THEN AddOnly ELSE DelOnly)
       ELSE Singles \cup Batches

Next == /\ Len(hist) < N
        /\ \E o \in Ops :
             LET r == Apply(store, o) IN
             /\ hist' = Append(hist, [o |-> o, ok |-> r.ok, exp |-> Exp(r.s)])
             /\ store' = r.s
Emit == Len(hist) = N => PrintT(ToJson(hist))
Spec == Init /\ [][Next]_<<hist, store>>
=============================================================================
