------------------------------ MODULE CdbTrace ------------------------------
(* Trace validation for C16: what the real go-cdb-mods writer / reader did with a sequence of pairs.
   Lines (written by `vh cdb`):
     {"ev":"case","pairs":[[k,v],..],"lookups":{k:[v..]},"absent":{k:[v..]},"full":B,"n":N,
      "badkeys":[..],"dumpmake":"same|differs|error: ..","eof_sticky":B,"err":".."}
   full = TRUE: pairs holds every pair and TLC recomputes the expected value lists; otherwise (tens of thousands
   of pairs) the driver compared every key's value list with the written one and reports the offending keys.      *)
EXTENDS Integers, Sequences, FiniteSets, Json, TLC

Trace == ndJsonDeserialize("trace.ndjson")
VARIABLE l

ValuesOf(pairs, k) == LET idx == SelectSeq([i \in 1..Len(pairs) |-> i], LAMBDA i : pairs[i][1] = k)
                      IN [j \in 1..Len(idx) |-> pairs[idx[j]][2]]

Verdict(e) ==
  IF e.err # "" THEN "write-or-open-failed"
  ELSE IF e.full /\ \E k \in DOMAIN e.lookups : e.lookups[k] # ValuesOf(e.pairs, k) THEN "lookup-differs"
  ELSE IF \E k \in DOMAIN e.absent : e.absent[k] # <<>> THEN "absent-key-found"
  ELSE IF e.badkeys # <<>> THEN "lookup-differs"
  ELSE IF ~e.eof_sticky THEN "value-after-end-of-data"
  ELSE IF e.dumpmake # "same" /\ e.dumpmake # "skipped" THEN "dump-make-differs"
  ELSE "ok"

Init == l = 1
Next == /\ l <= Len(Trace)
        /\ LET v == Verdict(Trace[l]) IN IF v = "ok" THEN TRUE ELSE PrintT(<<"REJECT", l, v>>)
        /\ l' = l + 1
Done == l = Len(Trace) + 1 => PrintT(<<"ACCEPTED", Len(Trace)>>)
Spec == Init /\ [][Next]_l
=============================================================================
