-------------------------------- MODULE Lpm --------------------------------
(* Property layer of C03 (and the location step of C01/C04/C10): longest-prefix match over the declared
   subnets of one map, family aware, on real addresses.

   An address is a sequence of 16 bytes (IPv4 addresses in their v4-mapped form ::ffff:a.b.c.d), a family
   tag f \in {4, 6} and a prefix length in 128-bit space (an IPv4 /n has length 96 + n).
   net    == [f, b, len, loc, map]      a declared subnet   (% line)
   client == [f, b, len]                a resolver address (len = 128) or an EDNS client subnet          *)
EXTENDS Integers, Sequences, FiniteSets

Pow2(n) == CASE n = 0 -> 1 [] n = 1 -> 2 [] n = 2 -> 4 [] n = 3 -> 8 [] n = 4 -> 16
             [] n = 5 -> 32 [] n = 6 -> 64 [] n = 7 -> 128 [] OTHER -> 256

\* the first k (0..8) bits of byte v, as a number
TopBits(v, k) == v \div Pow2(8 - k)

\* do the first n bits of the 16-byte strings a and b agree?
PrefixEq(a, b, n) ==
  \A i \in 1..16 :
     LET k == IF n >= 8 * i THEN 8 ELSE IF n <= 8 * (i - 1) THEN 0 ELSE n - 8 * (i - 1)
     IN TopBits(a[i], k) = TopBits(b[i], k)

\* host bits (beyond the first n bits) all zero
Canonical(b, n) ==
  \A i \in 1..16 :
     LET k == IF n >= 8 * i THEN 8 ELSE IF n <= 8 * (i - 1) THEN 0 ELSE n - 8 * (i - 1)
     IN b[i] % Pow2(8 - k) = 0

\* "the longest declared subnet of the same address family that contains it and is no longer than the
\*  client's own prefix"
Covers(net, c) == net.f = c.f /\ net.len <= c.len /\ PrefixEq(net.b, c.b, net.len)

Matching(nets, c) == {n \in nets : Covers(n, c)}

\* the matched length, or -1 when no declared subnet covers the client
LpmLen(nets, c) == LET m == Matching(nets, c) IN
                   IF m = {} THEN -1 ELSE CHOOSE k \in {n.len : n \in m} : \A n \in m : n.len <= k

\* the locations a correct implementation may return: those of the longest covering subnets
\* (a well-formed file declares a network once per map, so this is a singleton or empty)
LpmLocs(nets, c) == LET k == LpmLen(nets, c) IN {n.loc : n \in {x \in Matching(nets, c) : x.len = k}}
=============================================================================
