----------------------------- MODULE StoreTrace -----------------------------
(* Trace validation for C07 / C08 and the preprocessing half of C09: what the real compilers / ApplyDiff /
   Preprocess produced (complete dumps of the databases) against the reference, compared as maps from key to
   multiset of values (MVStore!SameStoreBag).
   Lines (written by `vh store`):
     ev = "compile" : ref = what the sequential codec emits for the file, got = dump of the compiled database;
                      referr # "" : the codec rejects a line -> the compilation must fail for this setting;
                      allowfail : the file holds a line beyond the scanner's token limit - refusing it is fine,
                      succeeding with anything but the full reference is not
     ev = "diff"    : ref = fresh compile of the next file, got = database after ApplyDiff
     ev = "baddiff" : ref = dump before, got = dump after a diff that must be refused
     ev = "preproc" : ref = compile of the original file, got = compile of the preprocessed file
   full = TRUE: ref / got hold the complete maps (small cases) and TLC compares them; otherwise the driver reduced
   both sides to their difference as multisets of (key, value) pairs (missing / extra, capped) and to counts.   *)
EXTENDS MVStore, Json, TLC

Trace == ndJsonDeserialize("trace.ndjson")
VARIABLE l

ToStore(o) == [k \in DOMAIN o |-> o[k]]
Same(e) == /\ e.missing = <<>> /\ e.extra = <<>>
           /\ e.refn = e.gotn /\ e.refkeys = e.gotkeys
           /\ e.full => SameStoreBag(ToStore(e.ref), ToStore(e.got))

Verdict(e) ==
  CASE e.ev = "compile" -> IF e.referr # "" THEN (IF e.err = "" THEN "rejected-line-accepted" ELSE "ok")
                            ELSE IF e.err # "" THEN (IF e.allowfail THEN "ok" ELSE "compile-failed")
                            ELSE IF ~Same(e) THEN "store-differs" ELSE "ok"
    [] e.ev = "diff" -> IF e.err # "" THEN "diff-refused" ELSE IF ~Same(e) THEN "store-differs" ELSE "ok"
    [] e.ev = "baddiff" -> IF e.err = "" THEN "bad-diff-accepted" ELSE IF ~Same(e) THEN "failed-diff-changed-store" ELSE "ok"
    [] e.ev = "preproc" -> IF e.referr # "" THEN "ok"
                            ELSE IF e.err # "" THEN "preprocessed-file-rejected"
                            ELSE IF ~Same(e) THEN "store-differs" ELSE "ok"
    [] OTHER -> "unknown-event"

Init == l = 1
Next == /\ l <= Len(Trace)
        /\ LET v == Verdict(Trace[l]) IN IF v = "ok" THEN TRUE ELSE PrintT(<<"REJECT", l, v>>)
        /\ l' = l + 1
Done == l = Len(Trace) + 1 => PrintT(<<"ACCEPTED", Len(Trace)>>)
Spec == Init /\ [][Next]_l
=============================================================================
