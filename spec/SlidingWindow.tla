--------------------------- MODULE SlidingWindow ---------------------------
(* C19 (sampled metrics): the sliding window behind Stats.AddSample / Stats.Get (metrics/swindow.go).

   Discrete-time model: Add(v) stamps the sample with expiry now + W; a cleaner runs every TICK time units and drops
   the expired prefix of the (time-ordered) sample list; Report returns the values currently held.
   Property (ReportOk): at any time t the reported multiset
       contains every sample with expiry > t                    (a sample is reported until it expires)
       contains no sample with expiry <= t - TICK               (and not after: the cleaner is at most one tick late)
       contains nothing that was never added                    (no spurious value - in particular no spurious zero)
   IdealCleaner = TRUE is the cleaner as it should be; FALSE transcribes the loop of swindow.go as it was before the
   fix recorded in KNOWN_FINDINGS.json (compaction inside the scan loop, copy in the wrong direction).
   The trace half (SlidingWindowTrace.tla) applies the same rule to timed observations of the real window.     *)
EXTENDS Integers, Sequences, FiniteSets, TLC

CONSTANTS W, TICK, MaxTime, MaxAdds, IdealCleaner

VARIABLES now, samples, added, nextv
vars == <<now, samples, added, nextv>>
\* sample = [v, exp];  added: set of [v, exp] ever added (values are unique and positive)

Init == now = 0 /\ samples = <<>> /\ added = {} /\ nextv = 1

Add == /\ nextv <= MaxAdds
       /\ samples' = Append(samples, [v |-> nextv, exp |-> now + W])
       /\ added' = added \cup {[v |-> nextv, exp |-> now + W]}
       /\ nextv' = nextv + 1
       /\ UNCHANGED now

Expired(s, t) == s.exp < t
RECURSIVE DropPrefix(_, _)
DropPrefix(ss, t) == IF ss # <<>> /\ Expired(Head(ss), t) THEN DropPrefix(Tail(ss), t) ELSE ss

\* the loop of swindow.go before the fix: for every expired sample at the front (ranging over the ORIGINAL slice, whose
\* tail has meanwhile been overwritten with zero samples) the list is replaced by a fresh slice of zero samples
Zero == [v |-> 0, exp |-> -1]
RECURSIVE BuggyLoop(_, _, _, _)
BuggyLoop(orig, cur, idx, t) ==
  IF idx > Len(orig) \/ ~Expired(orig[idx], t) THEN cur
  ELSE LET start == idx
           n == Len(cur) - start
           new == IF n > 0 THEN [i \in 1..n |-> Zero] ELSE <<>>
           orig2 == [i \in 1..Len(orig) |-> IF i > start /\ i - start <= (IF n > 0 THEN n ELSE 0) /\ cur = orig THEN Zero ELSE orig[i]]
       IN BuggyLoop(orig2, new, idx + 1, t)
Clean(ss, t) == IF IdealCleaner THEN DropPrefix(ss, t) ELSE BuggyLoop(ss, ss, 1, t)

Tick == /\ now < MaxTime
        /\ now' = now + 1
        /\ samples' = IF (now + 1) % TICK = 0 THEN Clean(samples, now + 1) ELSE samples
        /\ UNCHANGED <<added, nextv>>

Next == Add \/ Tick
Spec == Init /\ [][Next]_vars

Reported == {samples[i].v : i \in 1..Len(samples)}
ReportOk ==
  /\ \A a \in added : a.exp > now => a.v \in Reported
  /\ \A i \in 1..Len(samples) : \E a \in added : a.v = samples[i].v /\ a.exp > now - TICK
  /\ \A i, j \in 1..Len(samples) : i # j => samples[i].v # samples[j].v
=============================================================================
