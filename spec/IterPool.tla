------------------------------ MODULE IterPool ------------------------------
(***************************************************************************)
(* Lock / channel discipline of rdb.IteratorPool (C14): get = read the     *)
(* enabled flag, then either create an ephemeral iterator or receive a     *)
(* pooled one from the channel; put = free an ephemeral iterator or send   *)
(* the pooled one back; disable = lock, clear the flag, receive N entries  *)
(* (i.e. wait for every pooled iterator to come back), unlock; enable =    *)
(* lock, create and send N entries, set the flag, unlock.  CatchWithPrimary*)
(* = disable; catch up (may fail: then the pool stays disabled); enable.   *)
(* Close = disable.                                                        *)
(* Checked: no deadlock, pooled iterators are conserved, nothing is freed  *)
(* twice, no iterator is used after the database was closed, and every     *)
(* access to the flag is either under the lock or atomic (AtomicFlag).     *)
(***************************************************************************)
EXTENDS Integers, FiniteSets, TLC

CONSTANTS Getters, N, MaxGets, CatchUpMayFail,
          AtomicFlag,      \* TRUE: the flag is accessed atomically (the repaired code); FALSE: plain read in get()
          PutChecksFlag    \* FALSE = the code; TRUE = the seeded variant "free the iterator when the pool is disabled"

VARIABLES enabled, chan, lock, g, r, closed, freed, raceSeen
vars == <<enabled, chan, lock, g, r, closed, freed, raceSeen>>

Init == /\ enabled = TRUE /\ chan = N /\ lock = "none" /\ closed = FALSE /\ freed = 0 /\ raceSeen = FALSE
        /\ g = [x \in Getters |-> [pc |-> "idle", it |-> "none", n |-> 0]]
        /\ r = [pc |-> "idle", drained |-> 0, filled |-> 0, rounds |-> 0, closing |-> FALSE]

\* a plain (non-atomic) read of the flag races with a write that happens while the reader sits between its two halves
GetRead(x) == /\ g[x].pc = "idle" /\ g[x].n < MaxGets /\ ~closed /\ ~(r.closing /\ r.pc # "idle")
              /\ g' = [g EXCEPT ![x].pc = IF enabled THEN "recv" ELSE "make"]
              /\ raceSeen' = (raceSeen \/ (~AtomicFlag /\ r.pc \in {"dis_write", "en_write"}))
              /\ UNCHANGED <<enabled, chan, lock, r, closed, freed>>
GetRecv(x) == /\ g[x].pc = "recv" /\ chan > 0
              /\ chan' = chan - 1
              /\ g' = [g EXCEPT ![x].pc = "use", ![x].it = "pooled"]
              /\ UNCHANGED <<enabled, lock, r, closed, freed, raceSeen>>
GetMake(x) == /\ g[x].pc = "make"
              /\ g' = [g EXCEPT ![x].pc = "use", ![x].it = "ephemeral"]
              /\ UNCHANGED <<enabled, chan, lock, r, closed, freed, raceSeen>>
Put(x) == /\ g[x].pc = "use"
          /\ IF g[x].it = "ephemeral" \/ (PutChecksFlag /\ ~enabled)
               THEN freed' = freed + 1 /\ chan' = chan
               ELSE freed' = freed /\ chan' = chan + 1
          /\ g' = [g EXCEPT ![x].pc = "idle", ![x].it = "none", ![x].n = @ + 1]
          /\ UNCHANGED <<enabled, lock, r, closed, raceSeen>>

\* reloader: CatchWithPrimary rounds, then Close
\* Close is only called by db.DB once no reader holds the backend (refcount protocol of Serve.tla): no getter is active
RLock == /\ r.pc = "idle" /\ lock = "none" /\ ~closed
         /\ (r.rounds >= 1 => \A x \in Getters : g[x].pc = "idle")
         /\ lock' = "r"
         /\ r' = [r EXCEPT !.pc = IF enabled THEN "dis_write" ELSE "dis_done", !.closing = (r.rounds >= 1)]
         /\ UNCHANGED <<enabled, chan, g, closed, freed, raceSeen>>
RDisWrite == /\ r.pc = "dis_write"
             /\ enabled' = FALSE
             /\ r' = [r EXCEPT !.pc = "drain", !.drained = 0]
             /\ UNCHANGED <<chan, lock, g, closed, freed, raceSeen>>
RDrain == /\ r.pc = "drain" /\ r.drained < N /\ chan > 0
          /\ chan' = chan - 1 /\ freed' = freed + 1
          /\ r' = [r EXCEPT !.drained = @ + 1]
          /\ UNCHANGED <<enabled, lock, g, closed, raceSeen>>
RDrained == /\ r.pc = "drain" /\ r.drained = N
            /\ r' = [r EXCEPT !.pc = "dis_done"]
            /\ UNCHANGED <<enabled, chan, lock, g, closed, freed, raceSeen>>
RUnlockDis == /\ r.pc = "dis_done"
              /\ lock' = "none"
              /\ r' = [r EXCEPT !.pc = IF r.closing THEN "closed" ELSE "catchup"]
              /\ closed' = r.closing
              /\ UNCHANGED <<enabled, chan, g, freed, raceSeen>>
RCatchUp(ok) == /\ r.pc = "catchup"
                /\ (ok \/ CatchUpMayFail)
                /\ r' = [r EXCEPT !.pc = IF ok THEN "en_lock" ELSE "idle", !.rounds = @ + 1]
                /\ UNCHANGED <<enabled, chan, lock, g, closed, freed, raceSeen>>
REnLock == /\ r.pc = "en_lock" /\ lock = "none"
           /\ lock' = "r"
           /\ r' = [r EXCEPT !.pc = IF enabled THEN "en_done" ELSE "fill", !.filled = 0]
           /\ UNCHANGED <<enabled, chan, g, closed, freed, raceSeen>>
RFill == /\ r.pc = "fill" /\ r.filled < N
         /\ chan' = chan + 1
         /\ r' = [r EXCEPT !.filled = @ + 1]
         /\ UNCHANGED <<enabled, lock, g, closed, freed, raceSeen>>
RFilled == /\ r.pc = "fill" /\ r.filled = N
           /\ r' = [r EXCEPT !.pc = "en_write"]
           /\ UNCHANGED <<enabled, chan, lock, g, closed, freed, raceSeen>>
REnWrite == /\ r.pc = "en_write"
            /\ enabled' = TRUE
            /\ r' = [r EXCEPT !.pc = "en_done"]
            /\ UNCHANGED <<chan, lock, g, closed, freed, raceSeen>>
RUnlockEn == /\ r.pc = "en_done"
             /\ lock' = "none"
             /\ r' = [r EXCEPT !.pc = "idle"]
             /\ UNCHANGED <<enabled, chan, g, closed, freed, raceSeen>>

Next == \/ \E x \in Getters : GetRead(x) \/ GetRecv(x) \/ GetMake(x) \/ Put(x)
        \/ RLock \/ RDisWrite \/ RDrain \/ RDrained \/ RUnlockDis \/ RCatchUp(TRUE) \/ RCatchUp(FALSE)
        \/ REnLock \/ RFill \/ RFilled \/ REnWrite \/ RUnlockEn

Finished == r.pc = "closed" /\ \A x \in Getters : g[x].pc = "idle"
\* terminated runs stutter so that TLC's deadlock check only reports real blocking
Spec == Init /\ [][Next]_vars

Pooled == Cardinality({x \in Getters : g[x].it = "pooled"})
Conservation == chan <= N /\ (enabled /\ lock = "none" => chan + Pooled = N)
NoRace == ~raceSeen
NoDeadlock == (ENABLED Next) \/ Finished \/ (closed /\ \A x \in Getters : g[x].pc \in {"idle"})
=============================================================================
