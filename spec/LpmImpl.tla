------------------------------ MODULE LpmImpl ------------------------------
(* Implementation layer of C03 on a toy address space: the two algorithms the code uses to find the location
   of a client - the range-point table built by dnsdata.Rearranger and searched with a predecessor lookup
   (RocksDB), and the prefix-length set with masked exact gets (CDB) - against longest-prefix match.

   The toy space has B address bits.  The block of length OFF starting at V4First plays the role of the
   IPv4-mapped block ::ffff:0:0/96 of the real space: it sits in the middle of the "IPv6" addresses, IPv4 subnets
   live inside it (their lengths are >= OFF, the analogue of 96 + n), a default IPv4 route is the whole block,
   "IPv6" subnets may contain it (real: ::8000:0:0/81 ... ::/0) and some of those go on after it (real: ::/N,
   N < 80).  Configurations: block "01" (B = 4), "001" and "011" (B = 5).

   TLC (a) checks RdbOk / CdbOk for every set of <= K declared subnets and every canonical client, and
   (b) prints every subnet set as JSON (Emit): the check embeds them in the real IPv4/IPv6 space and runs
   them through the real compilers and readers, whose answers are judged by Lpm.tla on the real addresses.

   The switches name deviations that the code had (and that a change may re-introduce); the registered
   configuration has all of them TRUE = what the code does after the fixes recorded in KNOWN_FINDINGS.json.  *)
EXTENDS Integers, Sequences, FiniteSets, TLC, SequencesExt, Json

CONSTANTS B,             \* address bits (4 or 5)
          OFF,           \* length of the prefix of the IPv4 block (real: 96)
          V4First,       \* first address of the IPv4 block (real: ::ffff:0:0)
          K,             \* number of declared subnets
          FixDefault,    \* TRUE: only a /0 is a default route; FALSE: any subnet whose network address is the first one
          FixSpan,       \* TRUE: an IPv6 subnet spanning the IPv4 block restarts after it; FALSE: only the default route does
          NoSpan,        \* TRUE: leave out IPv6 subnets (other than the default route) that contain the IPv4 block
          FixFamily,     \* TRUE: the CDB scan skips IPv6 lengths for IPv4 clients; FALSE: combined set used blindly
          EmitJson       \* TRUE: print every state (generator mode)

RECURSIVE Pow2(_)
Pow2(n) == IF n = 0 THEN 1 ELSE 2 * Pow2(n - 1)
LastAddr == Pow2(B) - 1
Size(len) == Pow2(B - len)
AfterV4 == V4First + Size(OFF)
Mask(a, len) == (a \div Size(len)) * Size(len)
InV4(a) == a >= V4First /\ a < AfterV4

Locs == {1, 2}
V6Cands == { <<s, l>> \in (0..LastAddr) \X (0..B) : Mask(s, l) = s /\ ~InV4(s) }
V4Cands == { <<s, l>> \in (0..LastAddr) \X (OFF..B) : Mask(s, l) = s /\ InV4(s) }
ContainsV4(s) == s.fam = 6 /\ s.start <= V4First /\ s.start + Size(s.len) >= AfterV4
Cand == { s \in [fam : {4, 6}, start : 0..LastAddr, len : 0..B, loc : Locs] :
            /\ IF s.fam = 6 THEN <<s.start, s.len>> \in V6Cands ELSE <<s.start, s.len>> \in V4Cands
            /\ NoSpan => ~(ContainsV4(s) /\ s.len > 0) }

VARIABLE nets
Init == nets = {}
\* a network is declared at most once per map and family (well-formed input)
Next == /\ Cardinality(nets) < K
        /\ \E s \in Cand : (\A t \in nets : ~(t.start = s.start /\ t.len = s.len /\ t.fam = s.fam)) /\ nets' = nets \cup {s}
Spec == Init /\ [][Next]_nets

\* ------------------------------------------------------------------ property layer (Lpm.tla on the toy space)
Clients == { c \in [fam : {4, 6}, addr : 0..LastAddr, plen : 0..B] :
               /\ Mask(c.addr, c.plen) = c.addr
               /\ (c.fam = 4 => InV4(c.addr) /\ c.plen >= OFF)
               /\ (c.fam = 6 => ~InV4(c.addr)) }
Matches(s, c) == s.fam = c.fam /\ s.len <= c.plen /\ Mask(c.addr, s.len) = s.start
LpmLoc(c) == LET m == {s \in nets : Matches(s, c)} IN
             IF m = {} THEN [loc |-> 0, len |-> 0]
             ELSE LET b == CHOOSE s \in m : \A t \in m : t.len <= s.len IN [loc |-> b.loc, len |-> b.len]

\* ------------------------------------------------------------------ rearranger (RocksDB range points)
\* point = [ip, kind ("S"/"E"), ml, null, loc]
Pt(ip, kind, ml, null, loc) == [ip |-> ip, kind |-> kind, ml |-> ml, null |-> null, loc |-> loc]
IsDef6(s) == s.fam = 6 /\ s.start = 0 /\ (IF FixDefault THEN s.len = 0 ELSE TRUE)
IsDef4(s) == s.fam = 4 /\ s.start = V4First /\ (IF FixDefault THEN s.len = OFF ELSE TRUE)
\* an IPv6 subnet that contains the IPv4 block and goes on after it (real: ::/N with N < 80)
Spans(s) == s.fam = 6 /\ s.start <= V4First /\ s.start + Size(s.len) > AfterV4
EndPt(s) == IF s.start + Size(s.len) - 1 # LastAddr THEN {Pt(s.start + Size(s.len), "E", s.len, TRUE, 0)} ELSE {}
PointsOf(s) ==
  IF IsDef6(s) THEN {Pt(0, "S", s.len, FALSE, s.loc), Pt(AfterV4, "S", s.len, FALSE, s.loc)}
  ELSE IF IsDef4(s) THEN {Pt(V4First, "S", s.len, FALSE, s.loc), Pt(AfterV4, "E", s.len, FALSE, s.loc)}
  ELSE {Pt(s.start, "S", s.len, FALSE, s.loc)} \cup EndPt(s)
       \cup (IF FixSpan /\ Spans(s) THEN {Pt(AfterV4, "S", s.len, FALSE, s.loc)} ELSE {})
HasDef6 == \E s \in nets : IsDef6(s)
HasDef4 == \E s \in nets : IsDef4(s)
AllPoints == UNION {PointsOf(s) : s \in nets}
  \cup (IF ~HasDef4 THEN {Pt(V4First, "S", 0, TRUE, 0), Pt(AfterV4, "E", 0, TRUE, 0)} ELSE {})
  \cup (IF ~HasDef6 THEN {Pt(0, "S", 0, TRUE, 0), Pt(AfterV4, "S", 0, TRUE, 0)} ELSE {})
PLess(a, b) == IF a.ip # b.ip THEN a.ip < b.ip
               ELSE IF a.kind # b.kind THEN a.kind = "E"
               ELSE IF a.kind = "S" THEN a.ml < b.ml
               ELSE a.ml > b.ml
Sorted == SortSeq(SetToSeq(AllPoints), PLess)

\* stack pass: End points take the location of the enclosing range
RECURSIVE StackPass(_, _, _)
StackPass(pts, stack, out) ==
  IF pts = <<>> THEN out
  ELSE LET p == Head(pts) IN
       IF p.kind = "S" THEN StackPass(Tail(pts), Append(stack, p), Append(out, p))
       ELSE IF Len(stack) < 2 THEN StackPass(Tail(pts), <<>>, Append(out, [p EXCEPT !.ml = 255]))   \* stack underflow: a crash in the code
       ELSE LET st == SubSeq(stack, 1, Len(stack) - 1)
                top == st[Len(st)]
            IN StackPass(Tail(pts), st, Append(out, [p EXCEPT !.ml = top.ml, !.null = top.null, !.loc = top.loc]))
RECURSIVE Squash(_, _)
Squash(pts, out) ==
  IF pts = <<>> THEN out
  ELSE LET p == Head(pts) IN
       IF out # <<>> /\ out[Len(out)].ip = p.ip /\ out[Len(out)].ml >= p.ml
         THEN Squash(Tail(pts), [out EXCEPT ![Len(out)] = p])
         ELSE Squash(Tail(pts), Append(out, p))
RangePoints == IF nets = {} THEN <<>> ELSE Squash(StackPass(Sorted, <<>>, <<>>), <<>>)
\* key = (ip, mlen) with mlen 0 for null locations; the store keeps several values under one key
KeyOf(p) == <<p.ip, IF p.null THEN 0 ELSE p.ml>>
KLeq(a, b) == a[1] < b[1] \/ (a[1] = b[1] /\ a[2] <= b[2])
RdbLocIn(rp, c) ==
  LET ks == { i \in 1..Len(rp) : KLeq(KeyOf(rp[i]), <<c.addr, c.plen>>) } IN
  IF ks = {} THEN [loc |-> 0, len |-> 0]
  ELSE LET i == CHOOSE i \in ks : \A j \in ks : KLeq(KeyOf(rp[j]), KeyOf(rp[i]))
           same == { j \in 1..Len(rp) : KeyOf(rp[j]) = KeyOf(rp[i]) }
           p == rp[i]
       IN IF Cardinality(same) > 1 THEN [loc |-> -1, len |-> 0]        \* "Invalid location length": two values under one key
          ELSE IF p.null THEN [loc |-> 0, len |-> 0] ELSE [loc |-> p.loc, len |-> p.ml]

\* ------------------------------------------------------------------ CDB: prefix-length set + masked exact get
LenSet(c) == {s.len : s \in nets}                   \* combined set  "\000/"
LenSetFam(c) == {s.len : s \in {t \in nets : t.fam = c.fam}}      \* per-family sets  "\0004" "\0006"
RECURSIVE CdbScan(_, _, _)
CdbScan(c, lens, fix) ==      \* lens: remaining lengths, scanned in descending order
  IF lens = {} THEN [loc |-> 0, len |-> 0]
  ELSE LET l == CHOOSE x \in lens : \A y \in lens : y <= x IN
       IF l > c.plen \/ (fix /\ c.fam = 4 /\ l < OFF) THEN CdbScan(c, lens \ {l}, fix)
       ELSE LET hit == {s \in nets : s.start = Mask(c.addr, l) /\ s.len = l} IN
            IF hit # {} THEN LET s == CHOOSE s \in hit : TRUE IN [loc |-> s.loc, len |-> l]
            ELSE CdbScan(c, lens \ {l}, fix)
CdbLoc(c) == CdbScan(c, LenSet(c), FixFamily)
CdbSepLoc(c) == CdbScan(c, LenSetFam(c), FALSE)

RdbOk == LET rp == RangePoints IN \A c \in Clients : RdbLocIn(rp, c) = LpmLoc(c)
CdbOk == \A c \in Clients : CdbLoc(c) = LpmLoc(c)
CdbSepOk == \A c \in Clients : CdbSepLoc(c) = LpmLoc(c)

\* ------------------------------------------------------------------ C10: the scope reported for an ECS client
\* (db.EcsLocation: matched length, minus the IPv4 offset for family 1; uint8 arithmetic - a negative value wraps)
Scope(c, res) == IF res.loc = 0 THEN -1 ELSE IF c.fam = 4 THEN res.len - OFF ELSE res.len
ScopeTruthful(c, res) ==
  res.loc # 0 => /\ Scope(c, res) >= 0
                 /\ Scope(c, res) <= (IF c.fam = 4 THEN B - OFF ELSE B)
                 /\ Scope(c, res) = Scope(c, LpmLoc(c))
ScopeOk == LET rp == RangePoints IN
           \A c \in Clients : ScopeTruthful(c, RdbLocIn(rp, c)) /\ ScopeTruthful(c, CdbLoc(c)) /\ ScopeTruthful(c, CdbSepLoc(c))

\* ------------------------------------------------------------------ generator
Emit == EmitJson => PrintT(ToJson(nets))
=============================================================================
