---------------------------- MODULE MVStoreTrace ----------------------------
(* Trace validation for C15 (and reused by C07/C08 for dump comparison): every step recorded from the
   real RocksDB store must be a step of the MVStore property layer.
   Lines:  {"ev":"reset"}
           {"ev":"op","op":"add"|"del","k":K,"v":V,"err":E,"obs":{K:[V..],..},"first":{K:[V]|[]}}
           {"ev":"op","op":"batch","adds":[[K,V]..],"dels":[[K,V]..],"err":E,"obs":..,"first":..}
           {"ev":"restored","obs":{..}}          (backup -> restore into another directory -> dump)
   obs lists EVERY key of the history's alphabet ([] = absent). *)
EXTENDS MVStore, Json, TLC

Trace == ndJsonDeserialize("trace.ndjson")

VARIABLES l, store
vars == <<l, store>>

StoreOf(obs) == [k \in {x \in DOMAIN obs : obs[x] # <<>>} |-> obs[k]]
ObsEq(obs, s) == DOMAIN s \subseteq DOMAIN obs /\ \A k \in DOMAIN obs : obs[k] = Get(s, k)
ObsBagEq(obs, s) == DOMAIN s \subseteq DOMAIN obs /\ \A k \in DOMAIN obs : SameBag(obs[k], Get(s, k))
FirstOk(e) == \A k \in DOMAIN e.first :
                 e.first[k] = (IF e.obs[k] = <<>> THEN <<>> ELSE <<e.obs[k][1]>>)

OkAdd(e) == /\ e.err = "none"
            /\ ObsEq(e.obs, Add(store, e.k, e.v).s)
OkDel(e) == LET want == DelErr(store, e.k, e.v) IN
            /\ e.err = want
            /\ IF want # "none" THEN ObsEq(e.obs, store)
               ELSE /\ \A k \in DOMAIN e.obs : k # e.k => e.obs[k] = Get(store, k)
                    /\ DOMAIN store \subseteq DOMAIN e.obs
                    /\ \E i \in 1..Len(store[e.k]) : store[e.k][i] = e.v /\ e.obs[e.k] = RemoveAt(store[e.k], i)
OkBatch(e) == LET r == ExecBatch(store, e.adds, e.dels) IN
              /\ (e.err = "none") = r.ok
              /\ IF r.ok THEN ObsBagEq(e.obs, r.s) ELSE ObsEq(e.obs, store)

Ok(e) == CASE e.ev = "reset" -> TRUE
           [] e.ev = "restored" -> ObsEq(e.obs, store)
           [] e.ev = "op" /\ e.op = "add" -> OkAdd(e) /\ FirstOk(e)
           [] e.ev = "op" /\ e.op = "del" -> OkDel(e) /\ FirstOk(e)
           [] e.ev = "op" /\ e.op = "batch" -> OkBatch(e) /\ FirstOk(e)
           [] OTHER -> FALSE

Init == l = 1 /\ store = Empty
Next == /\ l <= Len(Trace)
        /\ LET e == Trace[l] IN
           /\ IF Ok(e) THEN TRUE ELSE PrintT(<<"REJECT", l>>)
           /\ store' = IF e.ev = "reset" THEN Empty ELSE StoreOf(e.obs)   \* resynchronise on the observation
        /\ l' = l + 1
Done == l = Len(Trace) + 1 => PrintT(<<"ACCEPTED", Len(Trace)>>)
Spec == Init /\ [][Next]_vars
=============================================================================
