----------------------------- MODULE ResolveGen -----------------------------
(* Generator and self-check for the property layer Resolve.tla (C01 C02 C04 C11).

   A small universe of abstract data-file lines over the zone "z": a fixed skeleton (zone apex, a resolver map with
   two located subnets) plus up to K lines picked from Cand - located and untagged records, wildcards at two
   levels, a label that is not wild-safe, CNAME, MX/NS with in-zone and short-form targets, a delegation with
   glue, a nested zone, TXT, HTTPS, a reverse (=) line.  TLC
     (a) checks in every state that the oracle is satisfiable and self-consistent: for every query of QNames x
         QTypes x client locations the response an ideal server would give (IdealResp) is accepted by JudgeAt, and
         mutations of it (dropped record, wrong TTL, wrong rcode, record of a foreign location added) are rejected;
     (b) checks the non-interference theorem of C04 on the oracle: adding a line tagged with another location never
         changes IdealResp for a client of location L;
     (c) prints every file (Emit) - the checks render them to text, compile them with the real compilers and ask
         the real servers every query; ResolveTrace.tla judges the answers.                                      *)
EXTENDS Resolve, Json

CONSTANTS K, EmitJson

LA == <<97>>            \* "a"
LB == <<98, 98>>        \* "bb"
LX == <<97, 33>>        \* "a!"   not wild-safe
LC == <<99>>            \* "c"
LD == <<100>>           \* "d"
LS == <<115>>           \* "s"
LZ == <<122>>           \* "z"
Z == <<LZ>>

IP4(a, b, c, d) == <<0, 0, 0, 0, 0, 0, 0, 0, 0, 0, 255, 255, a, b, c, d>>
IP6(x) == <<32, 1, 13, 184, 0, 0, 0, 0, 0, 0, 0, 0, 0, 0, 0, x>>
NONE == <<-1>>

Ln(t, dom, wild, loc, ttl, ipf, ipb, x, xshort, num, rd) ==
  [t |-> t, dom |-> dom, wild |-> wild, loc |-> loc, ttl |-> ttl, ipf |-> ipf, ipb |-> ipb, x |-> x, xshort |-> xshort,
   y |-> <<>>, num |-> num, rd |-> rd, map |-> 0, netlen |-> 0]
Addr(dom, wild, loc, ttl, a) == Ln("+", dom, wild, loc, ttl, 4, IP4(10, 0, 0, a), <<>>, FALSE, NONE, <<>>)
Addr6(dom, wild, loc, a) == Ln("+", dom, wild, loc, -1, 6, IP6(a), <<>>, FALSE, NONE, <<>>)
Txt(dom, wild, loc, b) == Ln("'", dom, wild, loc, -1, 0, <<>>, <<>>, FALSE, NONE, <<116, b>>)
MapLn(kind, dom, wild, m) == [Ln(kind, dom, wild, 0, -1, 0, <<>>, <<>>, FALSE, NONE, <<>>) EXCEPT !.map = m]
NetLn(loc, m, a, b) == [Ln("%", <<>>, FALSE, loc, -1, 4, IP4(a, b, 0, 0), <<>>, FALSE, NONE, <<>>) EXCEPT !.map = m, !.netlen = 112]

L1 == 1   \* location ids
L2 == 2
MAPID == 28001

Skeleton == {
  Ln(".", Z, FALSE, 0, -1, 4, IP4(10, 0, 0, 53), <<LA>>, TRUE, NONE, <<>>),       \* SOA + NS a.ns.z + A
  MapLn("M", Z, TRUE, MAPID), MapLn("M", Z, FALSE, MAPID),
  NetLn(L1, MAPID, 10, 1), NetLn(L2, MAPID, 10, 2) }

Cand == {
  Addr(<<LA, LZ>>, FALSE, 0, -1, 1), Addr(<<LA, LZ>>, FALSE, L1, 60, 2), Addr(<<LA, LZ>>, FALSE, L2, 0, 3),
  Addr6(<<LA, LZ>>, FALSE, 0, 1),
  Addr(Z, TRUE, 0, -1, 4), Addr(Z, TRUE, L1, -1, 5),                        \* *.z
  Addr(<<LA, LZ>>, TRUE, 0, 300, 6),                                        \* *.a.z
  Addr(<<LB, LA, LZ>>, FALSE, 0, -1, 7), Addr(<<LB, LA, LZ>>, FALSE, L2, -1, 8),
  Addr(<<LX, LZ>>, FALSE, 0, -1, 9),                                        \* a!.z
  Addr(<<LC, LB, LZ>>, FALSE, L1, -1, 10),                                  \* c.bb.z only for L1: bb.z is an empty non-terminal
  Txt(<<LA, LZ>>, FALSE, 0, 44), Txt(<<LA, LZ>>, FALSE, L1, 50), Txt(Z, TRUE, L2, 51), Txt(Z, FALSE, 0, 58),
  Ln("C", <<LC, LZ>>, FALSE, 0, -1, 0, <<>>, <<LA, LZ>>, FALSE, NONE, <<>>),           \* c.z CNAME a.z
  Ln("C", <<LB, LZ>>, TRUE, L1, 5, 0, <<>>, <<LA, LZ>>, FALSE, NONE, <<>>),            \* *.bb.z CNAME (L1)
  Ln("@", Z, FALSE, 0, -1, 4, IP4(10, 0, 0, 25), <<LA>>, TRUE, <<10>>, <<>>),           \* MX a.mx.z + A
  Ln("@", <<LA, LZ>>, FALSE, 0, -1, 0, <<>>, <<LB, LA, LZ>>, FALSE, <<-1>>, <<>>),      \* MX -> bb.a.z
  Ln("&", <<LD, LZ>>, FALSE, 0, -1, 4, IP4(10, 0, 0, 54), <<LA>>, TRUE, NONE, <<>>),    \* delegation d.z, glue a.ns.d.z
  Ln("&", <<LD, LZ>>, FALSE, L1, -1, 0, <<>>, <<LA, LZ>>, FALSE, NONE, <<>>),           \* d.z NS a.z for L1 only
  Ln("&", Z, FALSE, L2, 7, 0, <<>>, <<LB, LA, LZ>>, FALSE, NONE, <<>>),                 \* extra apex NS for L2
  Ln(".", <<LS, LZ>>, FALSE, 0, -1, 0, <<>>, <<LA>>, TRUE, NONE, <<>>),                 \* nested zone s.z
  Ln(".", <<LS, LZ>>, FALSE, L1, 0, 0, <<>>, <<LB>>, TRUE, NONE, <<>>),                 \* nested zone s.z for L1 only, ttl 0
  Addr(<<LA, LS, LZ>>, FALSE, 0, -1, 11), Addr(<<LA, LD, LZ>>, FALSE, 0, -1, 12),
  Ln("H", <<LA, LZ>>, FALSE, 0, -1, 0, <<>>, <<>>, FALSE, <<1>>, <<0, 1, 0, 3, 2, 104, 50>>),
  Ln("=", <<LD, LA, LZ>>, FALSE, 0, -1, 4, IP4(10, 0, 0, 13), <<>>, FALSE, NONE, <<>>) }

QNames == { Z, <<LA, LZ>>, <<LB, LA, LZ>>, <<LC, LA, LZ>>, <<LX, LA, LZ>>, <<LX, LZ>>, <<LC, LX, LZ>>, <<LC, LZ>>, <<LB, LZ>>,
            <<LC, LB, LZ>>, <<LD, LB, LZ>>, <<LD, LZ>>, <<LC, LD, LZ>>, <<LA, LD, LZ>>, <<LS, LZ>>, <<LA, LS, LZ>>, <<LC, LS, LZ>>,
            <<LA, W_NS, LZ>>, <<LA, W_MX, LZ>>, <<LA, W_NS, LD, LZ>>, <<LD, LA, LZ>>, <<LC>>, <<>> }
QTypes == {T_A, T_AAAA, T_NS, T_MX, T_TXT, T_CNAME, T_SOA, T_HTTPS}
CLocs == {0, L1, L2}
SERIAL == 1700000000

VARIABLE file
Init == file = Skeleton
Next == /\ Cardinality(file) < Cardinality(Skeleton) + K
        /\ \E c \in Cand \ file : file' = file \cup {c}
Spec == Init /\ [][Next]_file

\* ------------------------------------------------------------------ the ideal server (one of the allowed responses)
RECURSIVE SetToSeqR(_)
SetToSeqR(S) == IF S = {} THEN <<>> ELSE LET x == CHOOSE x \in S : TRUE IN <<x>> \o SetToSeqR(S \ {x})

\* first min(n, |S|) elements of a set, deterministically
RECURSIVE TakeN(_, _)
TakeN(S, n) == IF n = 0 \/ S = {} THEN <<>> ELSE LET x == CHOOSE x \in S : TRUE IN <<x>> \o TakeN(S \ {x}, n - 1)

Glue(V, named, tgts) ==
  UNION { UNION { LET cands == {r \in Own(V, t) : r.ty = ty /\ r.wt > 0}
                      already == \E y \in named : y.n = t /\ y.t = ty
                  IN IF cands = {} \/ already THEN {} ELSE {AsRR(CHOOSE c \in cands : TRUE, t)} : ty \in {T_A, T_AAAA} } : t \in tgts }

IdealAt(R, L, q) ==
  LET V == Visible(R, L)
      sufs == Suffixes(q.name)
      ci == CutIndex(V, sufs)
      empty == [written |-> TRUE, rcode |-> 5, aa |-> FALSE, an |-> <<>>, ns |-> <<>>, ex |-> <<>>, opt |-> FALSE, hasecs |-> FALSE]
  IN IF ci = 0 THEN empty
     ELSE LET cut == sufs[ci]
              auth == \E r \in Own(V, cut) : r.ty = T_SOA
              nsset == {AsRR(r, cut) : r \in {x \in Own(V, cut) : x.ty = T_NS}}
              soa == AsRR(CHOOSE r \in Own(V, cut) : r.ty = T_SOA, cut)
          IN IF ~auth THEN
               [empty EXCEPT !.rcode = 0, !.ns = SetToSeqR(nsset), !.ex = SetToSeqR(Glue(V, nsset, Targets(nsset, V)))]
             ELSE LET lk == Lookup(V, sufs, ci)
                      hits == {r \in lk.recs : r.ty = q.type \/ r.ty = T_CNAME}
                      plain == {AsRR(r, q.name) : r \in {x \in hits : ~IsAddr(x.ty)}}
                      addr == TakeN({AsRR(r, q.name) : r \in {x \in hits : x.ty = q.type /\ IsAddr(x.ty) /\ x.wt > 0}}, q.maxans)
                      an == SetToSeqR(plain) \o addr
                      anset == SeqToSet(an)
                  IN IF ~lk.found THEN [empty EXCEPT !.rcode = 3, !.aa = TRUE, !.ns = <<soa>>]
                     ELSE IF an = <<>> THEN [empty EXCEPT !.rcode = 0, !.aa = TRUE, !.ns = <<soa>>]
                     ELSE [empty EXCEPT !.rcode = 0, !.aa = TRUE, !.an = an, !.ex = SetToSeqR(Glue(V, anset, Targets(anset, V)))]

Q(n, t) == [name |-> n, type |-> t, class |-> 1, maxans |-> 1]
\* (a) the oracle accepts the ideal response ...
OracleSatisfiable ==
  LET Recs == Records(file, SERIAL) IN
  \A n \in QNames, t \in QTypes, L \in CLocs : JudgeAt(Recs, L, Q(n, t), IdealAt(Recs, L, Q(n, t))) = "ok"

\* ... and rejects its mutations
DropOne(s) == Tail(s)
Mutants(r) ==
  (IF r.an # <<>> THEN {[r EXCEPT !.an = DropOne(@)], [r EXCEPT !.an[1].ttl = @ + 1], [r EXCEPT !.rcode = 3]} ELSE {})
  \cup (IF r.ns # <<>> THEN {[r EXCEPT !.ns = DropOne(@)]} ELSE {})
  \cup (IF r.rcode # 5 THEN {[r EXCEPT !.aa = ~@]} ELSE {})
  \cup (IF r.rcode = 3 THEN {[r EXCEPT !.rcode = 0]} ELSE {})
  \cup (IF r.rcode = 5 THEN {[r EXCEPT !.rcode = 0]} ELSE {[r EXCEPT !.rcode = 5, !.an = <<>>, !.ns = <<>>, !.ex = <<>>]})
OracleDiscriminates ==
  LET Recs == Records(file, SERIAL) IN
  \A n \in QNames, t \in QTypes, L \in CLocs :
     \A m \in Mutants(IdealAt(Recs, L, Q(n, t))) : JudgeAt(Recs, L, Q(n, t), m) # "ok"

\* (b) C04 on the oracle: a line tagged with another location changes nothing for a client of location L
ForeignFor(L) == {c \in Cand : c.loc # 0 /\ c.loc # L}
NonInterference ==
  \A L \in CLocs : \A c \in ForeignFor(L) \ file :
     LET R2 == Records(file \cup {c}, SERIAL)
         Recs == Records(file, SERIAL) IN
     \A n \in QNames, t \in QTypes : IdealAt(R2, L, Q(n, t)) = IdealAt(Recs, L, Q(n, t))

\* (c) generator
Emit == EmitJson => PrintT(ToJson(file \ Skeleton))
=============================================================================
