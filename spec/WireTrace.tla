------------------------------ MODULE WireTrace ------------------------------
(* Trace validation for C13: {"ev":"wire","d":descriptor,"db":"normal|rootzone|rootdeleg|empty","r":{backend: outcome}} *)
EXTENDS Wire

Trace == ndJsonDeserialize("trace.ndjson")
VARIABLE l
TInit == l = 1 /\ q = D(0, 0, 0, 0, 0, 0, 0, 0)
TNext == /\ l <= Len(Trace)
         /\ LET e == Trace[l] IN
            IF e.ev = "wire" THEN \A b \in DOMAIN e.r : LET v == Verdict(e.d, e.r[b]) IN IF v = "ok" THEN TRUE ELSE PrintT(<<"REJECT", l, b, v>>)
            ELSE TRUE
         /\ l' = l + 1 /\ UNCHANGED q
Done == l = Len(Trace) + 1 => PrintT(<<"ACCEPTED", Len(Trace)>>)
TSpec == TInit /\ [][TNext]_<<l, q>>
=============================================================================
