-------------------------------- MODULE Chain --------------------------------
(* C20: transport and plugin chain do not alter answers.

   Generator: every combination of front-handler configuration (whoami domain set / unset, ANY refusal on / off,
   per-listener max-answer), query class (names: several addresses, > 2000 bytes of TXT, missing, delegated, apex, outside
   every zone, the whoami domain, a name below it, a name that only shares its suffix, upper case; types A TXT ANY NS MX;
   zero questions) and transport (UDP without EDNS, UDP with 1232 / 4096 byte buffers, TCP).
   Contract (Verdict), over the answer t received from a real server on a loopback port and the answer i the bare
   database handler gives in-process for the same query with that listener's max-answer:
     no question (QDCOUNT 0, or QDCOUNT 1 and nothing after the header)
                            -> a failure reply (FORMERR from the server loop or SERVFAIL from the guard), and the server is still serving afterwards
     ANY with refusal on    -> exactly the synthesized HINFO record, nothing from the database
     the whoami domain      -> answered by the whoami handler (not judged against the database)
     everything else        -> t = i; over UDP, when i does not fit the client's buffer: TC set, within the buffer, and
                               nothing that i does not hold; over TCP always complete                              *)
EXTENDS Integers, Sequences, FiniteSets, TLC, Json

Names == 0..10     \* 0 a.z  1 big.z  2 nx.z  3 d.z  4 z  5 out.example  6 who.z  7 sub.who.z  8 notwho.z  9 WHO.Z  10 mx.z
Types == {1, 16, 255, 2, 15}
Transports == {[proto |-> "udp", buf |-> 0], [proto |-> "udp", buf |-> 1232], [proto |-> "udp", buf |-> 4096], [proto |-> "tcp", buf |-> 0]}
Cfgs == [whoami : BOOLEAN, refuse_any : BOOLEAN, maxans : {<<1, 3>>, <<2, 2>>}]

VARIABLE c
\* class 1 IN, 3 CH, 254 NONE, 255 ANY;  nq: 1 = one question, 0 = none (QDCOUNT 0), -1 = the header announces one question
\* but the message ends after the header
Init == c \in [cfg : Cfgs, name : Names, type : Types, class : {1}, nq : {1}, tr : Transports, listener : {1, 2}]
             \cup [cfg : Cfgs, name : {0, 4, 6}, type : {255, 16}, class : {3, 254, 255}, nq : {1}, tr : Transports, listener : {1}]
             \cup [cfg : Cfgs, name : {0}, type : {1}, class : {1}, nq : {0, -1}, tr : Transports, listener : {1}]
Next == UNCHANGED c
Spec == Init /\ [][Next]_c
Emit == PrintT(ToJson(c))

\* ------------------------------------------------------------------ contract
SetOf(s) == {s[i] : i \in 1..Len(s)}
IsAddr(t) == t = 1 \/ t = 28
NonAddr(s) == SetOf(SelectSeq(s, LAMBDA e : ~IsAddr(e.t)))
NAddr(s) == Len(SelectSeq(s, LAMBDA e : IsAddr(e.t)))
Same(t, i) == /\ t.rcode = i.rcode /\ t.aa = i.aa
              /\ NonAddr(t.an) = NonAddr(i.an) /\ NAddr(t.an) = NAddr(i.an)
              /\ SetOf(t.ns) = SetOf(i.ns) /\ Len(t.ex) = Len(i.ex)
Within(t, i) == /\ NonAddr(t.an) \subseteq NonAddr(i.an) /\ NAddr(t.an) <= NAddr(i.an)
                /\ SetOf(t.ns) \subseteq SetOf(i.ns) /\ Len(t.ex) <= Len(i.ex)
Limit(buf) == IF buf < 512 THEN 512 ELSE buf

Verdict(e) ==
  IF ~e.received THEN "no-reply"
  ELSE IF ~e.alive THEN "server-died"
  ELSE IF e.nq < 1 THEN (IF e.t.rcode \in {1, 2} /\ e.t.an = <<>> THEN "ok" ELSE "no-question-not-a-failure")
  ELSE IF e.cfg.refuse_any /\ e.type = 255 THEN
    (IF e.t.rcode = 0 /\ Len(e.t.an) = 1 /\ e.t.an[1].t = 13 /\ e.t.ns = <<>> /\ e.t.ex = <<>> THEN "ok" ELSE "any-not-refused-with-hinfo")
  ELSE IF e.is_whoami THEN "ok"
  ELSE IF e.proto = "tcp" THEN (IF e.t.tc THEN "truncated-over-tcp" ELSE IF Same(e.t, e.i) THEN "ok" ELSE "tcp-answer-differs")
  ELSE IF e.i.size <= Limit(e.buf) THEN (IF e.t.tc THEN "truncated-although-it-fits" ELSE IF Same(e.t, e.i) THEN "ok" ELSE "udp-answer-differs")
  ELSE IF ~e.t.tc THEN "too-big-without-tc"
  ELSE IF e.t.size > Limit(e.buf) THEN "truncated-reply-exceeds-buffer"
  ELSE IF ~Within(e.t, e.i) THEN "truncated-reply-holds-foreign-records"
  ELSE "ok"
=============================================================================
