----------------------------- MODULE MVBatchMC -----------------------------
(* Exhaustive check (C15): the batch/encoding implementation layer refines the map-of-lists
   property layer for every small store and batch.  The triple (store, adds, dels) is grown by
   actions so that TLC's workers share the enumeration. *)
EXTENDS MVBatch

CONSTANTS MaxStore, MaxAdds, MaxDels

Keys == {1, 2}
\* empty value, a value that looks like the encoding of the empty value, prefix-related values
Vals == {<<>>, <<0>>, <<1>>, <<1, 0>>}
Pairs == Keys \X Vals

VARIABLES store, adds, dels, phase
vars == <<store, adds, dels, phase>>

StoreSize(s) == IF DOMAIN s = {} THEN 0 ELSE LET f[K \in SUBSET DOMAIN s] ==
                    IF K = {} THEN 0 ELSE LET k == CHOOSE x \in K : TRUE IN Len(s[k]) + f[K \ {k}]
                 IN f[DOMAIN s]

Init == store = Empty /\ adds = <<>> /\ dels = <<>> /\ phase = 0

GrowStore == /\ phase = 0 /\ StoreSize(store) < MaxStore
             /\ \E p \in Pairs : store' = Add(store, p[1], p[2]).s
             /\ UNCHANGED <<adds, dels, phase>>
GrowAdds == /\ phase <= 1 /\ Len(adds) < MaxAdds
            /\ \E p \in Pairs : adds' = Append(adds, p)
            /\ phase' = 1 /\ UNCHANGED <<store, dels>>
GrowDels == /\ Len(dels) < MaxDels
            /\ \E p \in Pairs : dels' = Append(dels, p)
            /\ phase' = 2 /\ UNCHANGED <<store, adds>>
Next == GrowStore \/ GrowAdds \/ GrowDels
Spec == Init /\ [][Next]_vars

\* ---------------------------------------------------------------- invariants
EncodingRoundTrip == \A k \in DOMAIN store : Chunks(Enc(store[k])) = store[k]

DelValueRefines ==
  \A k \in DOMAIN store : \A v \in Vals :
     LET r == DelValue(Enc(store[k]), v)
     IN /\ r.ok = Has(store[k], v)
        /\ r.ok => Chunks(r.data) = RemoveFirst(store[k], v)
        /\ ~r.ok => r.data = Enc(store[k])

BatchRefines ==
  LET impl == ImplExecBatch(EncStore(store), adds, dels)
      abs == ExecBatch(store, adds, dels)
  IN /\ impl.ok = abs.ok
     /\ SameStoreBag(DecStore(impl.raw), abs.s)
     /\ ~abs.ok => impl.raw = EncStore(store)          \* failing batch changes nothing

\* order independence: the same pairs in sorted order give the same result
OrderIndependent ==
  LET r1 == ExecBatch(store, adds, dels)
      r2 == ExecBatch(store, SortPairs(adds), SortPairs(dels))
  IN r1.ok = r2.ok /\ SameStoreBag(r1.s, r2.s)
=============================================================================
