------------------------------ MODULE ServeGen ------------------------------
(* Behaviour generator: Serve with a history variable; every terminal behaviour is printed as a schedule
   (the sequence of action labels) together with what the model predicts for it. *)
EXTENDS Serve, Json

VARIABLE hist
GenInit == Init /\ hist = <<>>
GenNext == Next /\ hist' = Append(hist, lastAct')
GenSpec == GenInit /\ [][GenNext]_<<vars, hist>>
Emit == (~ENABLED Next) => PrintT(ToJson([steps |-> hist, bad |-> bad, open |-> OpenSet]))
=============================================================================
