SPECIFICATION Spec
CONSTANTS
  Procs = {1, 2}
  MaxRuns = 1
  MaxReloads = 2
  MaxGen = 3
  Kind = "rdb"
  CacheOn = TRUE
  BadGens = {3}
  AllowTimeout = TRUE
  AllowShutdown = TRUE
  TimeoutAfterFinish = TRUE
  FixValidateSame = TRUE
  FixInsertEpoch = TRUE
  FixSnapshot = TRUE
  FixStraggler = TRUE
VIEW view
INVARIANT AllSafe
CHECK_DEADLOCK FALSE
