-------------------------------- MODULE Wrs --------------------------------
(* C11: weighted random selection of A / AAAA records (db/wrs.go), property layer and implementation layer.

   Candidates c \in 1..n have weights w[c] \in 0..MaxW.  One run draws u[c] = a[c] / N for every candidate
   (a[c] \in 0..N-1, the grid stands for the uniform [0,1) variable) and gives it the key u^(1/w) (key 0 for weight
   0 or draw 0).  The code keeps a reservoir of at most Max items: for Max = 1 the first item, replaced whenever a
   later key is strictly greater; for Max > 1 items are appended until the reservoir is full, then the stored item
   with the smallest key (first one among equals) is replaced when its key is strictly smaller than the new one.
   Items whose key is 0 are not served.

   Property layer (what C11 states):
     Sound      served candidates are distinct, have positive weight
     Exact      exactly min(Max, number of candidates with a positive key) are served
     TopK       no unserved candidate has a key strictly greater than a served one
     Proportional (Max = 1)  over all draw tuples the number of tuples in which c is the one served is
                w[c] / sum(w) of all tuples, up to the grid error (ties and zero draws)
   TLC checks them for every weight vector, every Max and every draw tuple of the grid.                         *)
EXTENDS Integers, Sequences, FiniteSets, TLC

CONSTANTS NC,      \* max number of candidates
          MaxW,    \* weights 0..MaxW
          N,       \* grid: draws a / N, a \in 0..N-1
          MaxK     \* Max answers 1..MaxK

RECURSIVE Pow(_, _)
Pow(b, e) == IF e = 0 THEN 1 ELSE b * Pow(b, e - 1)

\* item = [id, a, w];  key = (a/N)^(1/w)
Zero(x) == x.w = 0 \/ x.a = 0
Gt(x, y) == IF Zero(x) THEN FALSE
            ELSE IF Zero(y) THEN TRUE
            ELSE Pow(x.a, y.w) * Pow(N, x.w) > Pow(y.a, x.w) * Pow(N, y.w)

\* ------------------------------------------------------------------ implementation layer: the reservoir of Wrs.Add
RECURSIVE MinIdx(_, _, _, _)
\* scan items from position i: index of the stored item that the code would evict for `new` (0 = none)
MinIdx(items, i, minItem, idx) ==
  IF i > Len(items) THEN idx
  ELSE IF Gt(minItem, items[i]) THEN MinIdx(items, i + 1, items[i], i)
  ELSE MinIdx(items, i + 1, minItem, idx)

AddItem(items, new, max) ==
  IF max = 1 THEN (IF items = <<>> THEN <<new>> ELSE IF Gt(new, items[1]) THEN <<new>> ELSE items)
  ELSE IF Len(items) < max THEN Append(items, new)
  ELSE LET idx == MinIdx(items, 1, new, 0) IN
       IF idx = 0 THEN items ELSE [items EXCEPT ![idx] = new]

RECURSIVE Run(_, _, _)
Run(cands, items, max) == IF cands = <<>> THEN items ELSE Run(Tail(cands), AddItem(items, Head(cands), max), max)

Served(cands, max) == LET it == Run(cands, <<>>, max) IN {it[i].id : i \in {j \in 1..Len(it) : ~Zero(it[j])}}
ServedSeq(cands, max) == LET it == Run(cands, <<>>, max) IN SelectSeq(it, LAMBDA x : ~Zero(x))

\* ------------------------------------------------------------------ model: all weight vectors
VARIABLES ws, max
Init == /\ max \in 1..MaxK
        /\ \E n \in 1..NC : ws \in [1..n -> 0..MaxW]
Next == UNCHANGED <<ws, max>>
Spec == Init /\ [][Next]_<<ws, max>>

Draws == [DOMAIN ws -> 0..(N - 1)]
Cands(d) == [i \in DOMAIN ws |-> [id |-> i, a |-> d[i], w |-> ws[i]]]
Min(a, b) == IF a < b THEN a ELSE b

Sound == \A d \in Draws : LET s == ServedSeq(Cands(d), max) IN
           /\ \A i, j \in 1..Len(s) : i # j => s[i].id # s[j].id
           /\ \A i \in 1..Len(s) : s[i].w > 0
Exact == \A d \in Draws : LET c == Cands(d) IN
           Cardinality(Served(c, max)) = Min(max, Cardinality({i \in DOMAIN ws : ~Zero(c[i])}))
TopK == \A d \in Draws : LET c == Cands(d)
                             s == Served(c, max) IN
           \A i \in s, j \in (DOMAIN ws) \ s : ~Gt(c[j], c[i])

\* Proportionality for Max = 1, over the tuples without a zero draw (a zero draw drops the candidate: that part of
\* the grid error is Exact's business): the number of tuples won by c is w[c] / W of them up to the mass of ties,
\* which the strict comparison resolves in favour of the earlier candidate: |cnt/total - w/W| <= n / (2 (N-1)).
RECURSIVE Sum(_, _)
Sum(f, S) == IF S = {} THEN 0 ELSE LET x == CHOOSE x \in S : TRUE IN f[x] + Sum(f, S \ {x})
Abs(x) == IF x < 0 THEN -x ELSE x
DrawsPos == [DOMAIN ws -> 1..(N - 1)]
Proportional ==
  max = 1 =>
    LET W == Sum(ws, DOMAIN ws)
        total == Cardinality(DrawsPos)
    IN W > 0 =>
       \A c \in DOMAIN ws :
          LET cnt == Cardinality({d \in DrawsPos : Served(Cands(d), 1) = {c}}) IN
          /\ (ws[c] = 0 => cnt = 0)
          /\ Abs(cnt * W - total * ws[c]) * 2 * (N - 1) <= Cardinality(DOMAIN ws) * total * W
=============================================================================
