------------------------------ MODULE MVBatch ------------------------------
(***************************************************************************)
(* Implementation layer for C15: how rdb.go / rdb_util.go realise the map  *)
(* of lists on top of a plain key -> byte-string store.                    *)
(*   - multi-value encoding: each value prefixed by its length             *)
(*     (appendValues, ReadNextChunk, delValue); the code uses a 4-byte     *)
(*     little-endian length, the model one cell (values shorter than 256)  *)
(*   - Batch.getAffectedKeys: merge of the two sorted pair lists with      *)
(*     duplicate skipping;  Batch.integrate: adds then dels per key, then  *)
(*     the "everything consumed" assertion                                 *)
(* TLC checks (MVBatchMC) that this refines MVStore!ExecBatch for every    *)
(* small store and batch.                                                  *)
(***************************************************************************)
EXTENDS MVStore, TLC

\* ---------------------------------------------------------------- encoding
RECURSIVE Enc(_)
Enc(vs) == IF vs = <<>> THEN <<>> ELSE <<Len(Head(vs))>> \o Head(vs) \o Enc(Tail(vs))

AppendValues(data, newVals) == data \o Enc(newVals)

\* ReadNextChunk loop of ForEach; "short" marks io.ErrUnexpectedEOF
RECURSIVE Chunks(_)
Chunks(data) ==
  IF data = <<>> THEN <<>>
  ELSE LET n == data[1]
       IN IF Len(data) < n + 1 THEN <<"short">>
          ELSE <<SubSeq(data, 2, n + 1)>> \o Chunks(SubSeq(data, n + 2, Len(data)))

\* delValue(data, value), i is the 0-based scan offset of the code
RECURSIVE DelValueAt(_, _, _)
DelValueAt(data, value, i) ==
  IF i >= Len(data) THEN [ok |-> FALSE, data |-> data]
  ELSE LET chunkLen == data[i + 1] + 1
           v == SubSeq(data, i + 2, i + chunkLen)
       IN IF v = value
            THEN [ok |-> TRUE, data |-> SubSeq(data, 1, i) \o SubSeq(data, i + chunkLen + 1, Len(data))]
            ELSE DelValueAt(data, value, i + chunkLen)
DelValue(data, value) == DelValueAt(data, value, 0)

\* ---------------------------------------------------------------- batch
\* pairs are <<key, value>>, keys are integers (byte order abstracted to <)
RECURSIVE InsertSorted(_, _)
InsertSorted(sorted, p) ==          \* stable insertion: after every element with key <= p's key
  IF sorted = <<>> THEN <<p>>
  ELSE IF Head(sorted)[1] <= p[1] THEN <<Head(sorted)>> \o InsertSorted(Tail(sorted), p)
  ELSE <<p>> \o sorted
RECURSIVE SortPairs(_)
SortPairs(ps) == IF ps = <<>> THEN <<>> ELSE InsertSorted(SortPairs(SubSeq(ps, 1, Len(ps) - 1)), ps[Len(ps)])

\* getAffectedKeys: a, d are the 0-based offsets, last is <<>> (nil) or <<key>>
RECURSIVE Merge(_, _, _, _, _, _)
Merge(A, D, a, d, last, keys) ==
  LET aIn == a < Len(A)
      dIn == d < Len(D)
  IN IF aIn /\ last # <<>> /\ last[1] = A[a + 1][1] THEN Merge(A, D, a + 1, d, last, keys)
     ELSE IF dIn /\ last # <<>> /\ last[1] = D[d + 1][1] THEN Merge(A, D, a, d + 1, last, keys)
     ELSE IF aIn /\ dIn THEN
            IF A[a + 1][1] < D[d + 1][1]
              THEN Merge(A, D, a + 1, d, <<A[a + 1][1]>>, Append(keys, A[a + 1][1]))
              ELSE Merge(A, D, a, d + 1, <<D[d + 1][1]>>, Append(keys, D[d + 1][1]))
     ELSE IF aIn THEN Merge(A, D, a + 1, d, <<A[a + 1][1]>>, Append(keys, A[a + 1][1]))
     ELSE IF dIn THEN Merge(A, D, a, d + 1, <<D[d + 1][1]>>, Append(keys, D[d + 1][1]))
     ELSE keys
AffectedKeys(A, D) == Merge(A, D, 0, 0, <<>>, <<>>)

\* integrate: walks uniqueKeys; returns [ok, vals (sequence parallel to keys), a, d]
RECURSIVE TakeAdds(_, _, _, _)
TakeAdds(A, a, key, data) ==
  IF a < Len(A) /\ A[a + 1][1] = key THEN TakeAdds(A, a + 1, key, AppendValues(data, <<A[a + 1][2]>>))
  ELSE [a |-> a, data |-> data]
RECURSIVE TakeDels(_, _, _, _)
TakeDels(D, d, key, data) ==
  IF d < Len(D) /\ D[d + 1][1] = key
    THEN LET r == DelValue(data, D[d + 1][2])
         IN IF ~r.ok THEN [ok |-> FALSE, d |-> d, data |-> data] ELSE TakeDels(D, d + 1, key, r.data)
    ELSE [ok |-> TRUE, d |-> d, data |-> data]

RECURSIVE Integrate(_, _, _, _, _, _, _)
Integrate(A, D, keys, i, a, d, vals) ==
  IF i > Len(keys)
    THEN [ok |-> (a = Len(A) /\ d = Len(D)), vals |-> vals]
    ELSE LET ta == TakeAdds(A, a, keys[i], vals[i])
             td == TakeDels(D, d, keys[i], ta.data)
         IN IF ~td.ok THEN [ok |-> FALSE, vals |-> vals]
            ELSE Integrate(A, D, keys, i + 1, ta.a, td.d, [vals EXCEPT ![i] = td.data])

\* the raw store: function key -> encoded data (absent = not in DOMAIN)
RawGet(raw, k) == IF k \in DOMAIN raw THEN raw[k] ELSE <<>>

\* RDB.ExecuteBatch on the raw store
ImplExecBatch(raw, adds, dels) ==
  LET A == SortPairs(adds)
      D == SortPairs(dels)
      keys == AffectedKeys(A, D)
      vals0 == [i \in 1..Len(keys) |-> RawGet(raw, keys[i])]
      r == Integrate(A, D, keys, 1, 0, 0, vals0)
      touched == {keys[i] : i \in 1..Len(keys)}
      valOf(k) == r.vals[CHOOSE i \in 1..Len(keys) : keys[i] = k]
      deleted == {k \in touched : valOf(k) = <<>>}
  IN IF adds = <<>> /\ dels = <<>> THEN [ok |-> TRUE, raw |-> raw]
     ELSE IF ~r.ok THEN [ok |-> FALSE, raw |-> raw]
     ELSE [ok |-> TRUE,
           raw |-> [k \in ((DOMAIN raw) \cup touched) \ deleted |-> IF k \in touched THEN valOf(k) ELSE raw[k]]]

EncStore(s) == [k \in DOMAIN s |-> Enc(s[k])]
DecStore(raw) == [k \in DOMAIN raw |-> Chunks(raw[k])]

=============================================================================
