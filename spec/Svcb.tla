-------------------------------- MODULE Svcb --------------------------------
(* C18: SVCB / HTTPS parameter lists - acceptance rule and RFC 9460 wire form.

   A parameter list is a sequence of candidate parameters (ids into Cand).  Each candidate is one "key=value" text
   (the text itself lives in the harness, tools/checks/c18.py, under the same id) described here abstractly:
     key   SvcParamKey number (0 mandatory, 1 alpn, 2 no-default-alpn, 3 port, 4 ipv4hint, 5 ech, 6 ipv6hint)
     syn   the value is syntactically valid for the key
     sem   the declared value as a sequence of byte strings (alpn ids; port as 2 bytes; addresses; keys of mandatory
           in the order written; ech bytes)
   Accept : every value valid, keys unique, mandatory names only keys that are present, never itself, no repeats.
   Wire   : parameters in strictly increasing key order, each  key(2) length(2) value  with the value in RFC 9460
            form (alpn: length-prefixed ids; mandatory: sorted 2-byte keys; the others: the bytes concatenated).
   TLC enumerates every list of <= MaxLen candidates in every order (Emit) and, in SvcbTrace, judges what the real
   FromText / ToWire / ToText and an independent decoder (miekg/dns) made of each.                                *)
EXTENDS Integers, Sequences, FiniteSets, TLC, Json

H2 == <<104, 50>>
H3 == <<104, 51>>
P(key, syn, sem) == [key |-> key, syn |-> syn, sem |-> sem]

Cand == <<
  P(1, TRUE, <<H2>>), P(1, TRUE, <<H2, H3>>),                                        \*  1  2  alpn
  P(2, TRUE, <<>>), P(2, FALSE, <<>>),                                               \*  3  4  no-default-alpn (4: with a value)
  P(3, TRUE, << <<0, 0>> >>), P(3, TRUE, << <<1, 187>> >>), P(3, TRUE, << <<255, 255>> >>),      \*  5  6  7  port 0 443 65535
  P(3, FALSE, <<>>), P(3, FALSE, <<>>), P(3, FALSE, <<>>),                           \*  8  9 10  port 65536, -1, "https"
  P(4, TRUE, << <<1, 2, 3, 4>> >>), P(4, TRUE, << <<1, 2, 3, 4>>, <<255, 255, 255, 255>> >>), P(4, FALSE, <<>>),   \* 11 12 13 ipv4hint
  P(5, TRUE, << <<1, 2, 3>> >>), P(5, FALSE, <<>>),                                  \* 14 15  ech
  P(6, TRUE, << <<32, 1, 13, 184, 0, 0, 0, 0, 0, 0, 0, 0, 0, 0, 0, 1>> >>),         \* 16  ipv6hint 2001:db8::1
  P(6, TRUE, << <<32, 1, 13, 184, 0, 0, 0, 0, 0, 0, 0, 0, 0, 0, 0, 1>>, <<0, 0, 0, 0, 0, 0, 0, 0, 0, 0, 255, 255, 1, 2, 3, 4>> >>),  \* 17 + ::ffff:1.2.3.4
  P(6, FALSE, <<>>),                                                                 \* 18  ipv6hint 1.2.3.4 (no colon)
  P(0, TRUE, << <<1>> >>), P(0, TRUE, << <<1>>, <<3>> >>), P(0, TRUE, << <<3>>, <<1>> >>), P(0, TRUE, << <<4>> >>),   \* 19..22 mandatory
  P(0, FALSE, << <<0>> >>), P(0, FALSE, << <<1>>, <<1>> >>), P(0, FALSE, <<>>),      \* 23 itself, 24 repeated, 25 unknown key name
  P(0, TRUE, << <<3>>, <<4>> >>), P(0, TRUE, << <<6>>, <<5>>, <<2>> >>),             \* 26 port|ipv4hint, 27 ipv6hint|echconfig|no-default-alpn:
                                                                                     \*    key order differs from the alphabetical order of the names
  P(1, TRUE, <<H3>>), P(1, TRUE, << <<104, 116, 116, 112, 47, 49, 46, 49>>, H2 >>)   \* 28 alpn=h3, 29 alpn=http/1.1|h2 (values that differ from the first byte on)
>>
NC == Len(Cand)

Keys(l) == {Cand[l[i]].key : i \in 1..Len(l)}
Accept(l) ==
  /\ \A i \in 1..Len(l) : Cand[l[i]].syn
  /\ \A i, j \in 1..Len(l) : i # j => Cand[l[i]].key # Cand[l[j]].key
  /\ \A i \in 1..Len(l) : Cand[l[i]].key = 0 => \A j \in 1..Len(Cand[l[i]].sem) : Cand[l[i]].sem[j][1] \in Keys(l)

U16(n) == <<n \div 256, n % 256>>
RECURSIVE Flat(_)
Flat(ss) == IF ss = <<>> THEN <<>> ELSE Head(ss) \o Flat(Tail(ss))
RECURSIVE LenPrefixed(_)
LenPrefixed(ss) == IF ss = <<>> THEN <<>> ELSE <<Len(Head(ss))>> \o Head(ss) \o LenPrefixed(Tail(ss))
RECURSIVE SortedKeys(_)
SortedKeys(S) == IF S = {} THEN <<>> ELSE LET m == CHOOSE x \in S : \A y \in S : x <= y IN <<m>> \o SortedKeys(S \ {m})

ValueWire(c) == IF c.key = 1 THEN LenPrefixed(c.sem)
                ELSE IF c.key = 0 THEN Flat([i \in 1..Len(SortedKeys({c.sem[j][1] : j \in 1..Len(c.sem)})) |-> U16(SortedKeys({c.sem[j][1] : j \in 1..Len(c.sem)})[i])])
                ELSE Flat(c.sem)
ParamWire(c) == U16(c.key) \o U16(Len(ValueWire(c))) \o ValueWire(c)
Wire(l) == LET ks == SortedKeys(Keys(l)) IN
           Flat([i \in 1..Len(ks) |-> ParamWire(Cand[CHOOSE x \in {l[j] : j \in 1..Len(l)} : Cand[x].key = ks[i]])])

\* what an independent decoder must recover: <<key, declared value>> in increasing key order (mandatory: sorted keys)
Declared(l) == LET ks == SortedKeys(Keys(l)) IN
               [i \in 1..Len(ks) |-> LET c == Cand[CHOOSE x \in {l[j] : j \in 1..Len(l)} : Cand[x].key = ks[i]] IN
                                     [key |-> c.key,
                                      sem |-> IF c.key = 0 THEN [n \in 1..Len(SortedKeys({c.sem[j][1] : j \in 1..Len(c.sem)})) |-> <<SortedKeys({c.sem[j][1] : j \in 1..Len(c.sem)})[n]>>]
                                              ELSE c.sem]]

\* ------------------------------------------------------------------ generator: every list of <= MaxLen candidates
CONSTANTS MaxLen, EmitJson
VARIABLE lst
Init == lst = <<>>
Next == Len(lst) < MaxLen /\ \E c \in 1..NC : lst' = Append(lst, c)
Spec == Init /\ [][Next]_lst
\* sanity of the specification itself: an accepted list has a wire form with strictly increasing keys
WireSorted == Accept(lst) => LET d == Declared(lst) IN \A i \in 1..(Len(d) - 1) : d[i].key < d[i + 1].key
Emit == EmitJson => PrintT(ToJson(lst))
=============================================================================
