------------------------- MODULE SlidingWindowTrace -------------------------
(* Trace validation for the sampled-metric half of C19: timed observations of real sliding windows (lifetime WMS,
   cleaner tick TICKMS; all three constants in microseconds) and of the real metrics.Stats under concurrent updates.
   Lines (written by `vh window`), times in microseconds since the start of the run, every call bracketed by t0 <= t1:
     {"ev":"add","w":I,"v":V,"t0":..,"t1":..}            V unique and positive per window
     {"ev":"obs","w":I,"t0":..,"t1":..,"vals":[..]}       Samples() of window I
     {"ev":"hotobs","w":I,"must":N,"missing":M,"spurious":S}   a window fed by four adders at a high pace: the driver
                                                                applied the must-rule itself (too many samples for a trace)
     {"ev":"stats","n":N,"m":M,"counter":C,"min":..,"max":..,"avg":..,"expmin":..,"expmax":..,"expsum":..,"expcount":..,
      "freshkeys":K,"badfreshkeys":B}   B of K fresh keys, first used by all N goroutines at once, lost a sample
   Rule for obs (ReportOk of SlidingWindow.tla with measurement slack EPS):
     must  = samples whose Add returned before the observation began and that expire later than its end + EPS
     may   = samples whose Add began before the observation ended and that expired less than TICK + EPS before its start
     must \subseteq vals \subseteq may, no value twice.                                                          *)
EXTENDS Integers, Sequences, FiniteSets, Json, TLC

CONSTANTS WMS, TICKMS, EPS
Trace == ndJsonDeserialize("trace.ndjson")
VARIABLES l, adds
\* adds: function window -> set of [v, t0, t1]

AddsOf(w) == IF w \in DOMAIN adds THEN adds[w] ELSE {}
SetOf(s) == {s[i] : i \in 1..Len(s)}

ObsVerdict(e) ==
  LET A == AddsOf(e.w)
      must == {a.v : a \in {x \in A : x.t1 < e.t0 /\ x.t0 + WMS > e.t1 + EPS}}
      may == {a.v : a \in {x \in A : x.t0 <= e.t1 /\ x.t1 + WMS + TICKMS + EPS > e.t0}}
      got == SetOf(e.vals)
  IN IF \E v \in got : v \notin {a.v : a \in A} THEN "spurious-sample"
     ELSE IF Cardinality(got) # Len(e.vals) THEN "sample-reported-twice"
     ELSE IF ~(must \subseteq got) THEN "live-sample-dropped"
     ELSE IF ~(got \subseteq may) THEN "expired-sample-reported"
     ELSE "ok"

StatsVerdict(e) ==
  IF e.counter # e.n * e.m THEN "counter-lost-updates"
  ELSE IF e.min # e.expmin \/ e.max # e.expmax THEN "window-min-max"
  ELSE IF e.avg # e.expsum \div e.expcount THEN "window-average"
  ELSE IF e.badfreshkeys # 0 THEN "first-samples-of-a-key-lost"
  ELSE "ok"

Init == l = 1 /\ adds = <<>>
Next == /\ l <= Len(Trace)
        /\ LET e == Trace[l] IN
           CASE e.ev = "add" -> adds' = (e.w :> (AddsOf(e.w) \cup {[v |-> e.v, t0 |-> e.t0, t1 |-> e.t1]})) @@ adds
             [] e.ev = "obs" -> /\ LET v == ObsVerdict(e) IN IF v = "ok" THEN TRUE ELSE PrintT(<<"REJECT", l, v>>)
                                /\ UNCHANGED adds
             [] e.ev = "hotobs" -> /\ IF e.missing # 0 THEN PrintT(<<"REJECT", l, "live-sample-dropped">>)
                                     ELSE IF e.spurious # 0 THEN PrintT(<<"REJECT", l, "spurious-sample">>) ELSE TRUE
                                   /\ UNCHANGED adds
             [] e.ev = "stats" -> /\ LET v == StatsVerdict(e) IN IF v = "ok" THEN TRUE ELSE PrintT(<<"REJECT", l, v>>)
                                  /\ UNCHANGED adds
             [] OTHER -> UNCHANGED adds
        /\ l' = l + 1
Done == l = Len(Trace) + 1 => PrintT(<<"ACCEPTED", Len(Trace)>>)
Spec == Init /\ [][Next]_<<l, adds>>
=============================================================================
