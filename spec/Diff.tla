-------------------------------- MODULE Diff --------------------------------
(* C08 on the property layer: applying the line diff A -> B to the store compiled from A gives the store compiled
   from B (as maps from key to multiset of values), whatever the order of the diff lines, including the same line
   twice in a file, one (key, value) pair emitted by several lines, and a pair that is deleted by one diff line
   and added by another; a diff that cannot be applied changes nothing.

   Files are bags of lines (line -> multiplicity 0..MaxMult); the codec maps a line to its <<key, value>> pairs.
   Compile(F)     = all pairs of all lines, appended
   LineDiff(A, B) = "-l" (A[l] - B[l]) times where positive, "+l" (B[l] - A[l]) times where positive
   Apply          = MVStore!ExecBatch: all additions, then all deletions, atomically (rdb.ApplyDiff builds ONE batch) *)
EXTENDS MVStore, TLC

CONSTANTS NL, MaxMult, Codec     \* lines 1..NL; Codec[l] = sequence of <<key, value>>

VARIABLES A, B
Init == A \in [1..NL -> 0..MaxMult] /\ B \in [1..NL -> 0..MaxMult]
Next == UNCHANGED <<A, B>>
Spec == Init /\ [][Next]_<<A, B>>

RECURSIVE Rep(_, _)
Rep(s, n) == IF n <= 0 THEN <<>> ELSE s \o Rep(s, n - 1)
RECURSIVE PairsFrom(_, _)
\* pairs of lines l..NL with multiplicities F[l]
PairsFrom(F, l) == IF l > NL THEN <<>> ELSE Rep(Codec[l], F[l]) \o PairsFrom(F, l + 1)
RECURSIVE PairsDown(_, _)
PairsDown(F, l) == IF l < 1 THEN <<>> ELSE Rep(Codec[l], F[l]) \o PairsDown(F, l - 1)
Compile(F) == ApplyAdds(Empty, PairsFrom(F, 1))

Plus(X, Y) == [l \in 1..NL |-> IF Y[l] > X[l] THEN Y[l] - X[l] ELSE 0]

DiffApplies ==
  LET adds == Plus(A, B)
      dels == Plus(B, A)
      r1 == ExecBatch(Compile(A), PairsFrom(adds, 1), PairsFrom(dels, 1))
      r2 == ExecBatch(Compile(A), PairsDown(adds, NL), PairsDown(dels, NL))        \* diff lines in the opposite order
  IN /\ r1.ok /\ SameStoreBag(r1.s, Compile(B))
     /\ r2.ok /\ SameStoreBag(r2.s, Compile(B))

\* a diff that deletes a line whose pairs are not (all) there fails as a whole: the store stays Compile(A)
BadDiffIsNoop ==
  \A l \in 1..NL :
     LET dels == [x \in 1..NL |-> IF x = l THEN A[l] + 1 ELSE 0]       \* one deletion more than there are copies
         r == ExecBatch(Compile(A), PairsFrom(Plus(A, B), 1), PairsFrom(dels, 1))
     IN ~r.ok => r.s = Compile(A)
=============================================================================
