----------------------------- MODULE CompileMC -----------------------------
(* Model values for Compile.tla: small files whose lines share keys (several values under one key, the same
   (key, value) pair from two lines, a line without records, optionally a rejected line). *)
EXTENDS Compile

\* four lines: k1 gets "a" twice (lines 1 and 3) and "b"; k2 gets "a"; line 4 emits nothing
CodecGood == << << <<1, "a">>, <<2, "a">> >>, << <<1, "b">> >>, << <<1, "a">> >>, <<>> >>
\* three lines, the second is rejected
CodecBad == << << <<1, "a">> >>, << <<0, "bad">> >>, << <<1, "b">>, <<2, "a">> >> >>
\* five single-record lines, three of them on key 2: bucket boundaries fall inside a run of equal keys
CodecRuns == << << <<1, "a">> >>, << <<2, "a">> >>, << <<2, "b">> >>, << <<2, "c">> >>, << <<3, "a">> >> >>
=============================================================================
