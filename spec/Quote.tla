------------------------------- MODULE Quote -------------------------------
(* C17: the escape grammar of data-file fields, as a decoder, and the separator-freedom predicate.

   A quoted form q (a byte sequence) denotes the byte string Decode(q):
     \a \b \f \n \r \t \v \\ \' \"      the usual single bytes
     \ooo   (3 octal digits)            one byte
     \xHH                               one byte
     backslash u XXXX, backslash U XXXXXXXX   the UTF-8 encoding of the code point
     any other byte                     itself
   The specification does not say HOW a string must be quoted (it does not model strconv.Quote); it says what any
   correct quoted form of s satisfies:   Decode(q) = s   /\   q holds no ',' ':' or newline
   and that the real decoder agrees with the grammar:   Bunquote(q) = Decode(q).                                *)
EXTENDS Integers, Sequences

Oct(c) == c >= 48 /\ c <= 55
HexVal(c) == IF c >= 48 /\ c <= 57 THEN c - 48 ELSE IF c >= 97 /\ c <= 102 THEN c - 87 ELSE IF c >= 65 /\ c <= 70 THEN c - 55 ELSE -1

RECURSIVE HexNum(_, _, _)
\* value of n hex digits of q starting at position i (1-based); -1 if one is not a hex digit
HexNum(q, i, n) == IF n = 0 THEN 0
                   ELSE LET d == HexVal(q[i + n - 1])
                            rest == HexNum(q, i, n - 1)
                        IN IF d < 0 \/ rest < 0 THEN -1 ELSE (rest * 16) + d

Utf8(cp) ==
  IF cp < 128 THEN <<cp>>
  ELSE IF cp < 2048 THEN <<192 + (cp \div 64), 128 + (cp % 64)>>
  ELSE IF cp < 65536 THEN <<224 + (cp \div 4096), 128 + ((cp \div 64) % 64), 128 + (cp % 64)>>
  ELSE <<240 + (cp \div 262144), 128 + ((cp \div 4096) % 64), 128 + ((cp \div 64) % 64), 128 + (cp % 64)>>

Simple(c) == CASE c = 97 -> 7 [] c = 98 -> 8 [] c = 102 -> 12 [] c = 110 -> 10 [] c = 114 -> 13 [] c = 116 -> 9 [] c = 118 -> 11
               [] c = 92 -> 92 [] c = 39 -> 39 [] c = 34 -> 34 [] OTHER -> -1

Bad == <<-1>>      \* not a well-formed quoted form

RECURSIVE Decode(_)
Decode(q) ==
  IF q = <<>> THEN <<>>
  ELSE IF q[1] # 92 THEN
    (LET r == Decode(Tail(q)) IN IF r = Bad THEN Bad ELSE <<q[1]>> \o r)
  ELSE IF Len(q) < 2 THEN Bad
  ELSE LET c == q[2] IN
    IF Simple(c) >= 0 THEN (LET r == Decode(SubSeq(q, 3, Len(q))) IN IF r = Bad THEN Bad ELSE <<Simple(c)>> \o r)
    ELSE IF Oct(c) THEN
      (IF Len(q) < 4 \/ ~Oct(q[3]) \/ ~Oct(q[4]) THEN Bad
       ELSE LET v == ((c - 48) * 64) + ((q[3] - 48) * 8) + (q[4] - 48)
                r == Decode(SubSeq(q, 5, Len(q)))
            IN IF v > 255 \/ r = Bad THEN Bad ELSE <<v>> \o r)
    ELSE IF c = 120 THEN
      (IF Len(q) < 4 \/ HexNum(q, 3, 2) < 0 THEN Bad
       ELSE LET r == Decode(SubSeq(q, 5, Len(q))) IN IF r = Bad THEN Bad ELSE <<HexNum(q, 3, 2)>> \o r)
    ELSE IF c = 117 THEN
      (IF Len(q) < 6 \/ HexNum(q, 3, 4) < 0 THEN Bad
       ELSE LET r == Decode(SubSeq(q, 7, Len(q))) IN IF r = Bad THEN Bad ELSE Utf8(HexNum(q, 3, 4)) \o r)
    ELSE IF c = 85 THEN
      (IF Len(q) < 10 \/ HexNum(q, 3, 8) < 0 \/ HexNum(q, 3, 8) > 1114111 THEN Bad
       ELSE LET r == Decode(SubSeq(q, 11, Len(q))) IN IF r = Bad THEN Bad ELSE Utf8(HexNum(q, 3, 8)) \o r)
    ELSE Bad

NoSep(q) == \A i \in 1..Len(q) : q[i] # 44 /\ q[i] # 58 /\ q[i] # 10
=============================================================================
