------------------------------ MODULE Resolve ------------------------------
(* Property layer of C01 (answers are what the data file declares), C04 (location isolation), C10 (ECS echo
   and scope) and the soundness/bounds part of C11 (weighted address selection).

   A data file is a set of abstract LINES (tinydns-data format with the dnsrocks extensions); Expand gives the
   resource records / maps / subnets each line declares (the meaning of the format, written from the format
   documentation, not from the server's code); Judge* say what a response to a query must look like.
   Names are sequences of labels, labels sequences of bytes (lower case); rdata is the uncompressed wire form
   as a sequence of bytes (TXT: the concatenated text), so every comparison is between sequences of numbers.

   line == [t, dom, wild, loc, ttl, ipf, ipb, x, xshort, y, num, rd, map, netlen]
     t       "Z" "." "&" "+" "=" "@" "S" "C" "^" "'" ":" "H" "B" "M" "8" "%"
     dom     owner name (without the "*." of a wildcard owner);  wild: owner was written "*.dom"
     loc     location id as a number (0 = untagged);  ttl: -1 = field left empty (default applies)
     ipf/ipb 0 / <<>> = no address, else family 4|6 and 16 bytes (v4-mapped for family 4)
     x       target name (NS/MX/SRV/CNAME/PTR/SVCB target, SOA mname); xshort: written without a dot, i.e.
             "a" standing for a.ns.dom / a.mx.dom / a.srv.dom
     y       second name (SOA rname)
     num     numeric fields, -1 = left empty
     rd      raw bytes: TXT text, generic rdata, SVCB parameter wire data
     map     map id (M 8 %);  netlen: prefix length in 128-bit space (% lines; ipf/ipb hold the network)     *)
EXTENDS Lpm, TLC

\* ----------------------------------------------------------------------------------------------- bytes
W_NS   == <<110, 115>>
W_MX   == <<109, 120>>
W_SRV  == <<115, 114, 118>>
W_HOSTMASTER == <<104, 111, 115, 116, 109, 97, 115, 116, 101, 114>>
W_STAR == <<42>>
W_INADDR == <<105, 110, 45, 97, 100, 100, 114>>
W_IP6  == <<105, 112, 54>>
W_ARPA == <<97, 114, 112, 97>>

U16(n) == <<n \div 256, n % 256>>
U32(n) == <<n \div 16777216, (n \div 65536) % 256, (n \div 256) % 256, n % 256>>

RECURSIVE Pack(_)
Pack(n) == IF n = <<>> THEN <<0>> ELSE <<Len(Head(n))>> \o Head(n) \o Pack(Tail(n))

RECURSIVE Digits(_)
Digits(n) == IF n < 10 THEN <<48 + n>> ELSE Digits(n \div 10) \o <<48 + (n % 10)>>
Hex(n) == IF n < 10 THEN 48 + n ELSE 87 + n

\* reverse-lookup owner of an address (= lines):  d.c.b.a.in-addr.arpa / nibbles.ip6.arpa
RevName(f, b) ==
  IF f = 4 THEN <<Digits(b[16]), Digits(b[15]), Digits(b[14]), Digits(b[13]), W_INADDR, W_ARPA>>
  ELSE [i \in 1..32 |-> LET byte == b[16 - ((i - 1) \div 2)] IN
                         IF i % 2 = 1 THEN <<Hex(byte % 16)>> ELSE <<Hex(byte \div 16)>>] \o <<W_IP6, W_ARPA>>

WildSafeByte(c) == (c >= 97 /\ c <= 122) \/ (c >= 48 /\ c <= 57) \/ c = 45 \/ c = 95
WildSafe(l) == \A i \in 1..Len(l) : WildSafeByte(l[i])

\* ----------------------------------------------------------------------------------------------- records
T_A == 1  T_NS == 2  T_CNAME == 5  T_SOA == 6  T_PTR == 12  T_MX == 15  T_TXT == 16  T_AAAA == 28
T_SRV == 33  T_SVCB == 64  T_HTTPS == 65  T_ANY == 255  T_DS == 43

TTL_SHORT == 2560      \* SOA
TTL_LINK  == 259200    \* NS (and what rides on an NS line)
TTL_LONG  == 86400     \* everything else

Def(v, d) == IF v < 0 THEN d ELSE v

RR(o, w, loc, ty, ttl, rd, tgt, wt) ==
  [o |-> o, w |-> w, loc |-> loc, ty |-> ty, ttl |-> ttl, rd |-> rd, tgt |-> tgt, wt |-> wt]

Target(l, word) == IF l.xshort THEN l.x \o <<word>> \o l.dom ELSE l.x

AddrRR(owner, wild, l, ttl, wt) ==
  IF l.ipf = 0 THEN {}
  ELSE IF l.ipf = 4 THEN {RR(owner, wild, l.loc, T_A, ttl, SubSeq(l.ipb, 13, 16), <<>>, wt)}
  ELSE {RR(owner, wild, l.loc, T_AAAA, ttl, l.ipb, <<>>, wt)}

RECURSIVE Chunks(_)
Chunks(s) == IF Len(s) <= 127 THEN (IF s = <<>> THEN <<>> ELSE <<Len(s)>> \o s)
             ELSE <<127>> \o SubSeq(s, 1, 127) \o Chunks(SubSeq(s, 128, Len(s)))

SoaRd(mname, rname, ser, ref, ret, exp, min) ==
  Pack(mname) \o Pack(rname) \o U32(ser) \o U32(ref) \o U32(ret) \o U32(exp) \o U32(min)

\* the resource records a line declares; serial = default SOA serial (mtime of the data file)
Expand(l, serial) ==
  CASE l.t = "Z" ->
         {RR(l.dom, FALSE, l.loc, T_SOA, Def(l.ttl, TTL_SHORT),
             SoaRd(l.x, l.y, Def(l.num[1], serial), Def(l.num[2], 16384), Def(l.num[3], 2048),
                   Def(l.num[4], 1048576), Def(l.num[5], 2560)), <<>>, 0)}
    [] l.t = "." ->
         LET nsttl == Def(l.ttl, TTL_LINK)
             tgt == Target(l, W_NS) IN
         {RR(l.dom, FALSE, l.loc, T_SOA, IF nsttl = 0 THEN 0 ELSE TTL_SHORT,
             SoaRd(tgt, <<W_HOSTMASTER>> \o l.dom, serial, 16384, 2048, 1048576, 2560), <<>>, 0),
          RR(l.dom, FALSE, l.loc, T_NS, nsttl, Pack(tgt), tgt, 0)}
         \cup AddrRR(tgt, FALSE, l, nsttl, 1)
    [] l.t = "&" ->
         LET nsttl == Def(l.ttl, TTL_LINK)
             tgt == Target(l, W_NS) IN
         {RR(l.dom, FALSE, l.loc, T_NS, nsttl, Pack(tgt), tgt, 0)} \cup AddrRR(tgt, FALSE, l, nsttl, 1)
    [] l.t = "+" -> AddrRR(l.dom, l.wild, l, Def(l.ttl, TTL_LONG), Def(l.num[1], 1))
    [] l.t = "=" ->
         LET ttl == Def(l.ttl, TTL_LONG) IN
         AddrRR(l.dom, l.wild, l, ttl, 1)
         \cup {RR(RevName(l.ipf, l.ipb), FALSE, l.loc, T_PTR, ttl,
                  Pack(IF l.wild THEN <<W_STAR>> \o l.dom ELSE l.dom), <<>>, 0)}
    [] l.t = "@" ->
         LET ttl == Def(l.ttl, TTL_LONG)
             tgt == Target(l, W_MX) IN
         {RR(l.dom, FALSE, l.loc, T_MX, ttl, U16(Def(l.num[1], 0)) \o Pack(tgt), tgt, 0)}
         \cup AddrRR(tgt, FALSE, l, ttl, 1)
    [] l.t = "S" ->
         LET ttl == Def(l.ttl, TTL_LONG)
             tgt == Target(l, W_SRV) IN
         {RR(l.dom, FALSE, l.loc, T_SRV, ttl,
             U16(Def(l.num[2], 0)) \o U16(Def(l.num[3], 0)) \o U16(Def(l.num[1], 0)) \o Pack(tgt), <<>>, 0)}
         \cup AddrRR(tgt, FALSE, l, ttl, 1)
    [] l.t = "C" -> {RR(l.dom, l.wild, l.loc, T_CNAME, Def(l.ttl, TTL_LONG), Pack(l.x), <<>>, 0)}
    [] l.t = "^" -> {RR(l.dom, FALSE, l.loc, T_PTR, Def(l.ttl, TTL_LONG), Pack(l.x), <<>>, 0)}
    [] l.t = "'" -> {RR(l.dom, l.wild, l.loc, T_TXT, Def(l.ttl, TTL_LONG), l.rd, <<>>, 0)}
    [] l.t = ":" -> {RR(l.dom, FALSE, l.loc, l.num[1], Def(l.ttl, TTL_LONG), l.rd, <<>>, 0)}
    [] l.t = "H" -> {RR(l.dom, l.wild, l.loc, T_HTTPS, Def(l.ttl, 0),
                        U16(Def(l.num[1], 0)) \o Pack(l.x) \o l.rd, <<>>, 0)}
    [] l.t = "B" -> {RR(l.dom, l.wild, l.loc, T_SVCB, Def(l.ttl, 0),
                        U16(Def(l.num[1], 0)) \o Pack(l.x) \o l.rd, <<>>, 0)}
    [] OTHER -> {}

Records(lines, serial) == UNION {Expand(l, serial) : l \in lines}
MapDecls(lines, kind) == {[dom |-> l.dom, wild |-> l.wild, map |-> l.map] : l \in {x \in lines : x.t = kind}}
Nets(lines) == {[f |-> l.ipf, b |-> l.ipb, len |-> l.netlen, loc |-> l.loc, map |-> l.map] : l \in {x \in lines : x.t = "%"}}

\* ----------------------------------------------------------------------------------------------- location
RECURSIVE Suffixes(_)
Suffixes(n) == IF n = <<>> THEN << <<>> >> ELSE <<n>> \o Suffixes(Tail(n))

\* exact-name map first, then the nearest enclosing wildcard map (*.parent, *.grandparent, ...); 0 = none
MapFor(lines, kind, name) ==
  LET decls == MapDecls(lines, kind)
      exact == {d \in decls : ~d.wild /\ d.dom = name}
      sufs  == Suffixes(name)
      wildAt(i) == {d \in decls : d.wild /\ d.dom = sufs[i]}
      lvls  == {i \in 2..Len(sufs) : wildAt(i) # {}}
  IN IF exact # {} THEN {d.map : d \in exact}
     ELSE IF lvls = {} THEN {}
     ELSE LET i == CHOOSE i \in lvls : \A j \in lvls : i <= j IN {d.map : d \in wildAt(i)}

\* what decides the location of a query:
\*   [locs: acceptable location ids (0 = no location), scope: acceptable scope values, -1 = no ECS in the query]
\* ECS first; when it yields no location the resolver's address decides.
\* a name without a resolver map uses the default map 0: the subnets declared without a map id (classic tinydns)
ResolverLocs(lines, q) ==
  LET m0 == MapFor(lines, "M", q.name)
      m == IF m0 = {} THEN {0} ELSE m0
  IN UNION { LET nets == {n \in Nets(lines) : n.map = mm}
                 ls == LpmLocs(nets, q.rip)
             IN IF ls = {} THEN {0} ELSE ls : mm \in m }

ClientLoc(lines, q) ==
  IF ~q.ecs.present THEN [locs |-> ResolverLocs(lines, q), scope |-> {-1}]
  ELSE LET m == MapFor(lines, "8", q.name) IN
       IF m = {} THEN [locs |-> ResolverLocs(lines, q), scope |-> {0}]
       ELSE LET mm == CHOOSE x \in m : TRUE
                nets == {n \in Nets(lines) : n.map = mm}
                c == [f |-> q.ecs.f, b |-> q.ecs.b, len |-> q.ecs.len]
                k == LpmLen(nets, c)
            IN IF k < 0 THEN [locs |-> ResolverLocs(lines, q), scope |-> {IF q.ecs.f = 4 THEN 24 ELSE 48}]
               ELSE [locs |-> LpmLocs(nets, c), scope |-> {IF q.ecs.f = 4 THEN k - 96 ELSE k}]

\* ----------------------------------------------------------------------------------------------- resolution
Visible(R, L) == {r \in R : r.loc = 0 \/ r.loc = L}
Own(V, n) == {r \in V : r.o = n /\ ~r.w}
WildAt(V, n) == {r \in V : r.o = n /\ r.w}

\* closest enclosing name (the name itself included) that has NS records visible to the client; -1 = none
CutIndex(V, sufs) ==
  LET c == {i \in 1..Len(sufs) : \E r \in Own(V, sufs[i]) : r.ty = T_NS} IN
  IF c = {} THEN 0 ELSE CHOOSE i \in c : \A j \in c : i <= j

\* records answering the name: its own, else those of the closest covering wildcard inside the zone, reached
\* only across wild-safe labels.  Result [found, recs]
RECURSIVE WildSearch(_, _, _, _)
WildSearch(V, sufs, i, cut) ==
  \* sufs[i] had nothing; try *.sufs[i+1]
  IF i = cut \/ i = Len(sufs) \/ ~WildSafe(Head(sufs[i])) THEN [found |-> FALSE, recs |-> {}]
  ELSE LET w == WildAt(V, sufs[i + 1]) IN
       IF w # {} THEN [found |-> TRUE, recs |-> w] ELSE WildSearch(V, sufs, i + 1, cut)

Lookup(V, sufs, cut) ==
  LET own == Own(V, sufs[1]) IN
  IF own # {} THEN [found |-> TRUE, recs |-> own] ELSE WildSearch(V, sufs, 1, cut)

\* ----------------------------------------------------------------------------------------------- judging a response
\* response RR: [n, t, ttl, rd];  response: [written, rcode, aa, an, ns, ex, opt, hasecs, ecs]
SeqToSet(s) == {s[i] : i \in 1..Len(s)}
NoDup(s) == \A i, j \in 1..Len(s) : i # j => s[i] # s[j]
AsRR(r, owner) == [n |-> owner, t |-> r.ty, ttl |-> r.ttl, rd |-> r.rd]
IsAddr(t) == t = T_A \/ t = T_AAAA

\* weighted selection (C11): `got` (response RRs of one address type) must be drawn without repetition from
\* the candidates and hold exactly min(max, number of positive-weight candidates), never a weight-0 one
SelectionOk(got, cands, owner, max) ==
  LET pos == {c \in cands : c.wt > 0}
      want == IF Cardinality(pos) < max THEN Cardinality(pos) ELSE max
  IN /\ NoDup(got)
     /\ SeqToSet(got) \subseteq {AsRR(c, owner) : c \in pos}
     /\ Len(got) = want

\* additional section: for every NS / MX target (HTTPS: owner) in answer and authority, at most one address per
\* family out of the target's own visible address records, and one is required when a positive-weight
\* candidate exists and the section that names the target does not already hold that address type for it
Targets(rrs, V) == {r.tgt : r \in {x \in V : x.tgt # <<>> /\ \E y \in rrs : y = AsRR(x, y.n)}}

AdditionalOk(resp, V, q) ==
  LET named == SeqToSet(resp.an) \cup SeqToSet(resp.ns)
      tg == Targets(named, V)
      \* the property speaks of NS/MX targets only; addresses of the queried name next to an HTTPS answer are
      \* tolerated, never required
      opt == IF \E y \in SeqToSet(resp.an) : y.t = T_HTTPS THEN {q.name} ELSE {}
      ex == SeqToSet(resp.ex)
  IN /\ NoDup(resp.ex)
     /\ \A e \in ex : IsAddr(e.t) /\ e.n \in (tg \cup opt)
     /\ \A t \in (tg \cup opt) : \A ty \in {T_A, T_AAAA} :
          LET cands == {r \in Own(V, t) : r.ty = ty}
              got == {e \in ex : e.n = t /\ e.t = ty}
              already == \E y \in named : y.n = t /\ y.t = ty
          IN /\ got \subseteq {AsRR(c, t) : c \in {x \in cands : x.wt > 0}}
             /\ Cardinality(got) <= 1
             /\ (t \in tg /\ ~already /\ \E c \in cands : c.wt > 0) => Cardinality(got) = 1

\* The verdict for one response, as the name of the first clause of the property it breaks ("ok" = none).
\* L = the client's location, q = [name, type, maxans, ...]
JudgeV(V, q, resp) ==
  LET sufs == Suffixes(q.name)
      ci == CutIndex(V, sufs)
  IN IF ~resp.written THEN "C01:no-response"
     ELSE IF ci = 0 THEN
       (IF resp.rcode = 5 /\ resp.an = <<>> /\ resp.ns = <<>> /\ resp.ex = <<>> THEN "ok" ELSE "C01:refused-expected")
     ELSE LET cut == sufs[ci]
              auth == \E r \in Own(V, cut) : r.ty = T_SOA
          IN IF ~auth THEN
               \* referral: NS of the closest delegation plus its glue, not authoritative
               (IF resp.rcode # 0 THEN "C01:referral-rcode"
                ELSE IF resp.aa THEN "C01:referral-aa"
                ELSE IF resp.an # <<>> THEN "C01:referral-answer"
                ELSE IF ~(NoDup(resp.ns) /\ SeqToSet(resp.ns) = {AsRR(r, cut) : r \in {x \in Own(V, cut) : x.ty = T_NS}})
                  THEN "C01:referral-ns"
                ELSE IF ~AdditionalOk(resp, V, q) THEN "C01:referral-glue"
                ELSE "ok")
             ELSE
               LET lk == Lookup(V, sufs, ci)
                   hits == {r \in lk.recs : r.ty = q.type \/ r.ty = T_CNAME}
                   plain == {r \in hits : ~IsAddr(r.ty)}
                   gotAddr == SelectSeq(resp.an, LAMBDA e : IsAddr(e.t))
                   gotPlain == SelectSeq(resp.an, LAMBDA e : ~IsAddr(e.t))
                   soas == {AsRR(r, cut) : r \in {x \in Own(V, cut) : x.ty = T_SOA}}
                   nss == {AsRR(r, cut) : r \in {x \in Own(V, cut) : x.ty = T_NS}}
               IN IF ~resp.aa THEN "C01:aa-missing"
                  ELSE IF ~lk.found THEN
                    (IF resp.rcode # 3 THEN "C01:nxdomain-expected"
                     ELSE IF resp.an # <<>> THEN "C01:nxdomain-with-answer"
                     ELSE IF ~(Len(resp.ns) = 1 /\ resp.ns[1] \in soas) THEN "C01:nxdomain-soa"
                     ELSE "ok")
                  ELSE IF resp.rcode # 0 THEN (IF resp.rcode = 3 THEN "C01:nxdomain-unexpected" ELSE "C01:rcode")
                  ELSE IF ~(NoDup(gotPlain) /\ SeqToSet(gotPlain) = {AsRR(r, q.name) : r \in plain}) THEN "C01:answer-set"
                  ELSE IF \E e \in SeqToSet(gotAddr) : e.t # q.type THEN "C01:answer-set"
                  ELSE IF IsAddr(q.type) /\ ~(SeqToSet(gotAddr) \subseteq {AsRR(r, q.name) : r \in {x \in hits : x.ty = q.type}})
                    THEN "C01:answer-set"
                  ELSE IF IsAddr(q.type) /\ ~SelectionOk(gotAddr, {x \in hits : x.ty = q.type}, q.name, q.maxans)
                    THEN "C11:selection"
                  ELSE IF resp.an = <<>> /\ ~(Len(resp.ns) = 1 /\ resp.ns[1] \in soas) THEN "C01:nodata-soa"
                  ELSE IF resp.an # <<>> /\ ~(SeqToSet(resp.ns) \subseteq nss) THEN "C01:authority"
                  ELSE IF ~AdditionalOk(resp, V, q) THEN "C11:additional"
                  ELSE "ok"

JudgeAt(R, L, q, resp) == JudgeV(Visible(R, L), q, resp)

\* C04: the record sets a server would be answering from if it got visibility wrong for a client of location L:
\* only the tagged records, only the untagged ones, every record, or another location's view
WrongViews(R, L) ==
  {{r \in R : r.loc = L}, {r \in R : r.loc = 0}, R} \cup {Visible(R, L2) : L2 \in {r.loc : r \in R} \ {0, L}}

\* a query is judgeable when the oracle is not silent: class IN, type not ANY / DS-at-a-cut / OPT-like
Judgeable(q) == q.class = 1 /\ q.type # T_ANY /\ q.type # T_DS /\ q.type \notin {41, 250, 251, 252, 253, 254}

\* C10: OPT exactly when asked; ECS exactly when asked, echoed unchanged, truthful scope (<= 32 / 128)
JudgeOpt(cl, q, resp) ==
  IF ~resp.written THEN "ok"
  ELSE IF resp.opt # q.edns THEN "C10:opt-presence"
  ELSE IF ~q.edns THEN "ok"
  ELSE IF resp.hasecs # q.ecs.present THEN "C10:ecs-presence"
  ELSE IF ~q.ecs.present THEN "ok"
  ELSE IF resp.ecs.f # (IF q.ecs.f = 4 THEN 1 ELSE 2) \/ resp.ecs.len # (IF q.ecs.f = 4 THEN q.ecs.len - 96 ELSE q.ecs.len)
          \/ resp.ecs.b # q.ecs.b THEN "C10:ecs-echo"
  ELSE IF resp.ecs.scope \notin cl.scope THEN "C10:scope"
  ELSE IF resp.ecs.scope > (IF q.ecs.f = 4 THEN 32 ELSE 128) THEN "C10:scope"
  ELSE "ok"

\* full verdict: some acceptable location must explain the response
Judge(lines, serial, q, resp) ==
  LET cl == ClientLoc(lines, q)
      R == Records(lines, serial)
      vs == {JudgeAt(R, L, q, resp) : L \in cl.locs}
      o == JudgeOpt(cl, q, resp)
  IN IF ~Judgeable(q) THEN "ok"
     ELSE IF "ok" \notin vs THEN CHOOSE v \in vs : TRUE
     ELSE o

\* C02 / C04: two responses to the same query are the same answer (weighted address choices may differ in
\* which addresses were drawn, not in how many)
SameBut(r1, r2) ==
  LET na(s) == SeqToSet(SelectSeq(s, LAMBDA e : ~IsAddr(e.t)))
      ad(s) == SelectSeq(s, LAMBDA e : IsAddr(e.t))
  IN /\ r1.written = r2.written /\ r1.rcode = r2.rcode /\ r1.aa = r2.aa
     /\ na(r1.an) = na(r2.an) /\ na(r1.ns) = na(r2.ns)
     /\ Len(ad(r1.an)) = Len(ad(r2.an)) /\ Len(r1.ex) = Len(r2.ex)
     /\ r1.opt = r2.opt /\ r1.hasecs = r2.hasecs /\ (r1.hasecs => r1.ecs = r2.ecs)
=============================================================================
