------------------------------ MODULE ServeObs ------------------------------
(***************************************************************************)
(* Property layer for C05 C06 C12 (and the crash / hang part of C14): the  *)
(* observable events of serving and reloading, judged against the          *)
(* properties.  Events are totally ordered by a sequence number taken      *)
(* inside the harness' seams; the rules only rely on real-time order of    *)
(* call / return events, so they are sound for free-running executions.    *)
(*                                                                         *)
(*  scenario                      start of an independent execution        *)
(*  open b / close b / dblclose b / uac b     from the instrumented backend*)
(*  rcall id / loaded id gen / rret id ok     reload call, generation it   *)
(*                                            loaded, return               *)
(*  qstart q client / qresp q stamps hit / qdone q                         *)
(*  quiesce open served shut      no reader held, no reload running        *)
(*  hang, panic, noresp           watchdog / recover()                     *)
(*                                                                         *)
(* A response may carry generation s only if s was the installed           *)
(* generation when the query started, or was loaded by a reload that       *)
(* overlaps the query and (eventually) succeeds.                           *)
(***************************************************************************)
EXTENDS Integers, Sequences, FiniteSets, TLC, Json

Trace == ndJsonDeserialize("trace.ndjson")

VARIABLES l, cur, rid, tent, usedTent, infl, last, opened, closed,
          spath, rkind, rpath      \* path last switched to; kind and path of the reload in progress
vars == <<l, cur, rid, tent, usedTent, infl, last, opened, closed, spath, rkind, rpath>>

Has(e, f) == f \in DOMAIN e
SetOf(s) == {s[i] : i \in 1..Len(s)}
MaxOf(S) == CHOOSE x \in S : \A y \in S : y <= x

Init == /\ l = 1 /\ cur = 1 /\ rid = 0 /\ tent = 0 /\ usedTent = FALSE
        /\ infl = [x \in {} |-> {}] /\ last = [x \in {} |-> 0] /\ opened = {} /\ closed = {}
        /\ spath = "p1" /\ rkind = "" /\ rpath = ""

Reject(why) == PrintT(<<"REJECT", l, why>>)

\* the checks made when a response becomes visible
RespProblems(e) ==
  LET st == SetOf(e.stamps)
      allowed == IF e.q \in DOMAIN infl THEN infl[e.q] ELSE {cur}
      prev == IF e.client \in DOMAIN last THEN last[e.client] ELSE 0
  IN (IF Has(e, "rcode") /\ e.rcode = 2 THEN {"ServFail"} ELSE {})
     \cup (IF st \subseteq allowed THEN {} ELSE {IF e.hit THEN "StaleCacheServed" ELSE "Visibility"})
     \cup (IF Cardinality(st) > 1 THEN {"MixedGenerations"} ELSE {})
     \cup (IF \E s \in st : s < prev THEN {"WentBackwards"} ELSE {})

Step(e) ==
  CASE e.ev = "scenario" ->
         /\ cur' = 1 /\ rid' = 0 /\ tent' = 0 /\ usedTent' = FALSE
         /\ infl' = [x \in {} |-> {}] /\ last' = [x \in {} |-> 0] /\ opened' = {} /\ closed' = {}
         /\ spath' = (IF Has(e, "path") THEN e.path ELSE "p1") /\ rkind' = "" /\ rpath' = ""
    [] e.ev = "open" ->
         /\ opened' = opened \cup {e.backend}
         /\ UNCHANGED <<cur, rid, tent, usedTent, infl, last, closed>> /\ UNCHANGED <<spath, rkind, rpath>>
    [] e.ev = "close" ->
         /\ (IF e.backend \in closed THEN Reject("DoubleClose") ELSE TRUE)
         /\ closed' = closed \cup {e.backend}
         /\ UNCHANGED <<cur, rid, tent, usedTent, infl, last, opened, spath, rkind, rpath>>
    [] e.ev = "dblclose" -> Reject("DoubleClose") /\ UNCHANGED <<cur, rid, tent, usedTent, infl, last, opened, closed>> /\ UNCHANGED <<spath, rkind, rpath>>
    [] e.ev = "uac" -> Reject("UseAfterClose") /\ UNCHANGED <<cur, rid, tent, usedTent, infl, last, opened, closed>> /\ UNCHANGED <<spath, rkind, rpath>>
    [] e.ev \in {"hang", "panic", "noresp", "crash"} -> Reject(e.ev) /\ UNCHANGED <<cur, rid, tent, usedTent, infl, last, opened, closed>> /\ UNCHANGED <<spath, rkind, rpath>>
    [] e.ev = "rcall" ->
         /\ rid' = e.id /\ tent' = 0 /\ usedTent' = FALSE
         /\ rkind' = e.kind /\ rpath' = (IF e.kind = "part" THEN spath ELSE e.path)
         /\ UNCHANGED <<cur, infl, last, opened, closed, spath>>
    [] e.ev = "loaded" ->
         IF e.id = rid /\ Has(e, "gen") /\ e.gen # 0
           THEN /\ (IF rkind = "part" /\ Has(e, "path") /\ e.path # spath THEN Reject("PartialFollowsSwitch") ELSE TRUE)
                /\ tent' = e.gen
                /\ infl' = [x \in DOMAIN infl |-> infl[x] \cup {e.gen}]
                /\ UNCHANGED <<cur, rid, usedTent, last, opened, closed>> /\ UNCHANGED <<spath, rkind, rpath>>
           ELSE UNCHANGED <<cur, rid, tent, usedTent, infl, last, opened, closed>> /\ UNCHANGED <<spath, rkind, rpath>>   \* straggler of a reload that already returned
    [] e.ev = "rret" ->
         /\ IF e.ok
              THEN /\ cur' = IF tent # 0 THEN tent ELSE cur
                   /\ infl' = infl
              ELSE /\ cur' = cur
                   /\ infl' = [x \in DOMAIN infl |-> IF tent # 0 /\ tent # cur THEN infl[x] \ {tent} ELSE infl[x]]
                   /\ (IF usedTent THEN Reject("FailedReloadExposed") ELSE TRUE)
         /\ rid' = 0 /\ tent' = 0 /\ usedTent' = FALSE
         /\ spath' = (IF e.ok /\ rkind = "full" THEN rpath ELSE spath)
         /\ UNCHANGED <<last, opened, closed, rkind, rpath>>
    [] e.ev = "qstart" ->
         /\ infl' = [x \in (DOMAIN infl) \cup {e.q} |-> IF x = e.q THEN {cur} \cup (IF tent # 0 THEN {tent} ELSE {}) ELSE infl[x]]
         /\ UNCHANGED <<cur, rid, tent, usedTent, last, opened, closed>> /\ UNCHANGED <<spath, rkind, rpath>>
    [] e.ev = "qresp" ->
         /\ LET pr == RespProblems(e) IN
              IF pr = {} THEN TRUE ELSE \A w \in pr : Reject(w)
         /\ last' = [x \in (DOMAIN last) \cup {e.client} |->
                       IF x = e.client THEN MaxOf(SetOf(e.stamps) \cup {IF x \in DOMAIN last THEN last[x] ELSE 0}) ELSE last[x]]
         /\ usedTent' = (usedTent \/ (tent # 0 /\ tent # cur /\ tent \in SetOf(e.stamps)))
         /\ UNCHANGED <<cur, rid, tent, infl, opened, closed>> /\ UNCHANGED <<spath, rkind, rpath>>
    [] e.ev = "qdone" ->
         /\ infl' = [x \in (DOMAIN infl) \ {e.q} |-> infl[x]]
         /\ UNCHANGED <<cur, rid, tent, usedTent, last, opened, closed>> /\ UNCHANGED <<spath, rkind, rpath>>
    [] e.ev = "quiesce" ->
         /\ LET want == IF e.shut THEN {} ELSE {e.served} IN
              IF SetOf(e.open) = want THEN TRUE ELSE Reject("Leak")
         /\ UNCHANGED <<cur, rid, tent, usedTent, infl, last, opened, closed>> /\ UNCHANGED <<spath, rkind, rpath>>
    [] OTHER -> UNCHANGED <<cur, rid, tent, usedTent, infl, last, opened, closed>> /\ UNCHANGED <<spath, rkind, rpath>>   \* publish, shutdown, drift, notes

Next == /\ l <= Len(Trace)
        /\ Step(Trace[l])
        /\ l' = l + 1
Done == l = Len(Trace) + 1 => PrintT(<<"ACCEPTED", Len(Trace)>>)
Spec == Init /\ [][Next]_vars
=============================================================================
