SPECIFICATION Spec
CONSTANTS WMS = 1500000 TICKMS = 1000000 EPS = 200000
INVARIANT Done
CHECK_DEADLOCK FALSE
