------------------------------- MODULE Serve -------------------------------
(***************************************************************************)
(* Implementation-shaped model of serving and reloading (C05 C06 C12 C14): *)
(* dnsserver.FBDNSDB (reload lock, served pointer, path, response cache),  *)
(* db.DB (wrapper with refCount / destroyable), the storage backends (CDB: *)
(* immutable view fixed at open; RocksDB secondary: view advanced in place *)
(* by catch-up), query steps, the Reload goroutine + timeout handshake,    *)
(* validation, shutdown.  One action per critical section / seam.          *)
(*                                                                         *)
(* Deviations of the code from what the properties need are modelled and   *)
(* switched by the Fix* constants (FALSE = what the code does):            *)
(*   FixValidateSame  validation failure on the SAME backend must not      *)
(*                    destroy it (code: destroys through a fresh wrapper)  *)
(*   FixInsertEpoch   cache insert only if no purge happened since the      *)
(*                    reader was acquired                                  *)
(*   FixSnapshot      a reader pins the view at acquisition and catch-up   *)
(*                    becomes visible only at the swap (code: in place)    *)
(*   FixStraggler     the reload goroutine pins the backend it works on    *)
(* The code-shaped configuration (servelib.CODE_FIX) has FixValidateSame,  *)
(* FixInsertEpoch and FixStraggler TRUE since fix: commits F6, F7 and F13;  *)
(* FixSnapshot stays FALSE (known finding F12).                            *)
(* Generations identify content; the environment only installs             *)
(* non-decreasing generations, so "stale" = smaller number.                *)
(***************************************************************************)
EXTENDS Integers, Sequences, FiniteSets, TLC

CONSTANTS Procs, MaxRuns, MaxReloads, MaxGen, Kind, CacheOn, BadGens, AllowTimeout, AllowShutdown,
          TimeoutAfterFinish,   \* TRUE: the timer may also win the select when the goroutine has already finished

          FixValidateSame, FixInsertEpoch, FixSnapshot, FixStraggler

Paths == {1, 2, 3}            \* path 3 is never published: "missing / unreadable"
Gens == 1..MaxGen

VARIABLES disk, gen,          \* environment: published generation per path (0 = nothing there)
          be,                 \* backends: sequence of [path, view, open, pend, pins]
          db,                 \* db.DB wrappers: sequence of [dbi, ref, destr]
          served, spath, wlock, shut, cache, epoch,
          q,                  \* query workers
          r, g,               \* reloader, reload goroutines (one per reload call)
          nrel,
          cur, tent, usedTent, bad,   \* ghost: property bookkeeping
          lastAct                     \* ghost: label of the last action (for schedule export)

vars == <<disk, gen, be, db, served, spath, wlock, shut, cache, epoch, q, r, g, nrel, cur, tent, usedTent, bad, lastAct>>
view == <<disk, gen, be, db, served, spath, wlock, shut, cache, epoch, q, r, g, nrel, cur, tent, usedTent, bad>>

Max(S) == CHOOSE x \in S : \A y \in S : y <= x

\* ---------------------------------------------------------------- helpers on backends
Closed(b) == ~be[b].open
\* closing: returns the new be sequence; double close is recorded by the caller through DblClose
CloseBe(bes, b) == [bes EXCEPT ![b].open = FALSE]
InFlight(p) == q[p].pc # "idle"

Flag(cond, name) == IF cond THEN {name} ELSE {}

\* ---------------------------------------------------------------- initial state
Init ==
  /\ disk = [p \in Paths |-> IF p = 1 THEN 1 ELSE 0] /\ gen = 1
  /\ be = <<[path |-> 1, view |-> 1, open |-> TRUE, pend |-> 0, pins |-> 0]>>
  /\ db = <<[dbi |-> 1, ref |-> 0, destr |-> FALSE]>>
  /\ served = 1 /\ spath = 1 /\ wlock = FALSE /\ shut = FALSE /\ cache = {} /\ epoch = 0
  /\ q = [p \in Procs |-> [pc |-> "idle", d |-> 0, view |-> 0, st |-> {}, hit |-> FALSE, runs |-> 0,
                           allowed |-> {}, last |-> 0, ep |-> 0]]
  /\ r = [pc |-> "idle", kind |-> "none", path |-> 0, n |-> 0, res |-> 0, ok |-> FALSE]
  /\ g = [n \in 1..MaxReloads |-> [st |-> "none", f |-> 0, fdbi |-> 0, path |-> 0, local |-> 0, destroyNew |-> FALSE, newDBI |-> 0]]
  /\ nrel = 0 /\ cur = 1 /\ tent = 0 /\ usedTent = FALSE /\ bad = {} /\ lastAct = <<"Init">>

\* ---------------------------------------------------------------- environment
Publish(p) ==
  /\ p \in {1, 2} /\ gen < MaxGen
  /\ gen' = gen + 1 /\ disk' = [disk EXCEPT ![p] = gen + 1]
  /\ lastAct' = <<"Publish", p, gen + 1>>
  /\ UNCHANGED <<be, db, served, spath, wlock, shut, cache, epoch, q, r, g, nrel, cur, tent, usedTent, bad>>

\* ---------------------------------------------------------------- queries
QStart(p) ==
  /\ q[p].pc = "idle" /\ q[p].runs < MaxRuns /\ ~shut
  /\ q' = [q EXCEPT ![p].pc = "start", ![p].st = {}, ![p].hit = FALSE,
                    ![p].allowed = {cur} \cup (IF tent # 0 THEN {tent} ELSE {})]
  /\ lastAct' = <<"QStart", p>>
  /\ UNCHANGED <<disk, gen, be, db, served, spath, wlock, shut, cache, epoch, r, g, nrel, cur, tent, usedTent, bad>>

\* AcquireReader: RLock; NewReader (refCount++ under the DB lock, NewContext touches the backend); RUnlock
QAcquire(p) ==
  /\ q[p].pc = "start" /\ ~wlock
  /\ LET b == db[served].dbi IN
     /\ db' = [db EXCEPT ![served].ref = @ + 1]
     /\ q' = [q EXCEPT ![p].pc = "acq", ![p].d = served, ![p].view = be[b].view, ![p].ep = epoch]
     /\ bad' = bad \cup Flag(Closed(b), "UseAfterClose")
  /\ lastAct' = <<"QAcquire", p>>
  /\ UNCHANGED <<disk, gen, be, served, spath, wlock, shut, cache, epoch, r, g, nrel, cur, tent, usedTent>>

QBackend(p) == db[q[p].d].dbi
QView(p) == IF FixSnapshot THEN q[p].view ELSE be[QBackend(p)].view

\* FindLocation (touches the backend), cache lookup; on a miss IsAuthoritative (touch)
QLookup(p) ==
  /\ q[p].pc = "acq"
  /\ IF CacheOn /\ cache # {}
       THEN q' = [q EXCEPT ![p].pc = "towrite", ![p].hit = TRUE, ![p].st = cache]
       ELSE q' = [q EXCEPT ![p].pc = "authed"]
  /\ bad' = bad \cup Flag(Closed(QBackend(p)), "UseAfterClose")
  /\ lastAct' = <<"QLookup", p>>
  /\ UNCHANGED <<disk, gen, be, db, served, spath, wlock, shut, cache, epoch, r, g, nrel, cur, tent, usedTent>>

\* FindAnswer: reads the answer rows
QRead1(p) ==
  /\ q[p].pc = "authed"
  /\ q' = [q EXCEPT ![p].pc = "r1", ![p].st = @ \cup {QView(p)}]
  /\ bad' = bad \cup Flag(Closed(QBackend(p)), "UseAfterClose")
  /\ lastAct' = <<"QRead1", p>>
  /\ UNCHANGED <<disk, gen, be, db, served, spath, wlock, shut, cache, epoch, r, g, nrel, cur, tent, usedTent>>

\* authority / additional section lookups
QRead2(p) ==
  /\ q[p].pc = "r1"
  /\ q' = [q EXCEPT ![p].pc = "r2", ![p].st = @ \cup {QView(p)}]
  /\ bad' = bad \cup Flag(Closed(QBackend(p)), "UseAfterClose")
  /\ lastAct' = <<"QRead2", p>>
  /\ UNCHANGED <<disk, gen, be, db, served, spath, wlock, shut, cache, epoch, r, g, nrel, cur, tent, usedTent>>

\* lru.Add before the OPT record is attached
QInsert(p) ==
  /\ q[p].pc = "r2"
  /\ ((CacheOn /\ FixInsertEpoch) => ~wlock)     \* the repaired code inserts under the read lock (cacheAdd)
  /\ cache' = IF CacheOn /\ (FixInsertEpoch => q[p].ep = epoch) THEN q[p].st ELSE cache
  /\ q' = [q EXCEPT ![p].pc = "towrite"]
  /\ lastAct' = <<"QInsert", p>>
  /\ UNCHANGED <<disk, gen, be, db, served, spath, wlock, shut, epoch, r, g, nrel, cur, tent, usedTent, bad>>

\* WriteMsg: the response becomes observable - the C05/C12 invariants are evaluated here
QWrite(p) ==
  /\ q[p].pc = "towrite"
  /\ LET st == q[p].st IN
     /\ bad' = bad \cup Flag(~(st \subseteq q[p].allowed), IF q[p].hit THEN "StaleCacheServed" ELSE "Visibility")
                   \cup Flag(Cardinality(st) > 1, "MixedGenerations")
                   \cup Flag(\E s \in st : s < q[p].last, "WentBackwards")
     /\ q' = [q EXCEPT ![p].pc = "written", ![p].last = Max(st \cup {q[p].last})]
     /\ usedTent' = (usedTent \/ (tent # 0 /\ tent # cur /\ tent \in st))
  /\ lastAct' = <<"QWrite", p, IF q[p].hit THEN 1 ELSE 0>>
  /\ UNCHANGED <<disk, gen, be, db, served, spath, wlock, shut, cache, epoch, r, g, nrel, cur, tent>>

\* Reader.Close: FreeContext (touch), refCount--, close when destroyable and last
QRelease(p) ==
  /\ q[p].pc = "written"
  /\ LET d == q[p].d
         b == db[d].dbi
         last == db[d].destr /\ db[d].ref = 1 /\ be[b].pins = 0
     IN /\ db' = [db EXCEPT ![d].ref = @ - 1]
        /\ be' = IF last THEN CloseBe(be, b) ELSE be
        /\ bad' = bad \cup Flag(Closed(b), "UseAfterClose") \cup Flag(last /\ Closed(b), "DoubleClose")
  /\ q' = [q EXCEPT ![p].pc = "idle", ![p].runs = @ + 1]
  /\ lastAct' = <<"QRelease", p>>
  /\ UNCHANGED <<disk, gen, served, spath, wlock, shut, cache, epoch, r, g, nrel, cur, tent, usedTent>>

\* ---------------------------------------------------------------- reload
\* FBDNSDB.Reload takes the write lock, db.DB.Reload starts the goroutine
RStart(kind, path) ==
  /\ r.pc = "idle" /\ ~wlock /\ ~shut /\ nrel < MaxReloads
  /\ kind \in {"full", "part"}
  /\ IF kind = "part" THEN path = spath ELSE (path \in Paths /\ (disk[path] = 0 \/ disk[path] >= cur))
  /\ (kind = "part" => disk[path] >= cur)
  /\ wlock' = TRUE
  /\ r' = [pc |-> "wait", kind |-> kind, path |-> path, n |-> nrel + 1, res |-> 0, ok |-> FALSE]
  /\ g' = [g EXCEPT ![nrel + 1] = [st |-> "run", f |-> served, fdbi |-> db[served].dbi, path |-> path, local |-> 0,
                                   destroyNew |-> FALSE, newDBI |-> 0]]
  /\ be' = IF FixStraggler THEN [be EXCEPT ![db[served].dbi].pins = @ + 1] ELSE be
  /\ lastAct' = <<"RStart", kind, path>>
  /\ UNCHANGED <<disk, gen, db, served, spath, shut, cache, epoch, q, nrel, cur, tent, usedTent, bad>>

Active(n) == r.n = n /\ r.pc = "wait"
AddAllowed(qq, x) == [p \in Procs |-> IF qq[p].pc # "idle" THEN [qq[p] EXCEPT !.allowed = @ \cup {x}] ELSE qq[p]]

\* dbi.Reload(path) inside the goroutine: catch-up of the same RocksDB, or open of a new backend
GWork(n) ==
  /\ g[n].st = "run"
  /\ LET b == g[n].fdbi
         p == g[n].path
         catchup == Kind = "rdb" /\ p = be[b].path
     IN IF catchup
          THEN /\ be' = IF FixSnapshot
                         THEN (IF Active(n) THEN [be EXCEPT ![b].pend = disk[p]] ELSE be)  \* a cancelled reload's result is dropped
                         ELSE [be EXCEPT ![b].view = disk[p]]
               /\ g' = [g EXCEPT ![n].st = "got", ![n].local = b]
               /\ bad' = bad \cup Flag(Closed(b), "UseAfterClose")
               /\ tent' = IF Active(n) THEN disk[p] ELSE tent
               /\ q' = IF Active(n) THEN AddAllowed(q, disk[p]) ELSE q
          ELSE IF disk[p] = 0
                 THEN /\ g' = [g EXCEPT ![n].st = "got", ![n].local = -1]
                      /\ UNCHANGED <<be, bad, tent, q>>
                 ELSE /\ be' = Append(be, [path |-> p, view |-> disk[p], open |-> TRUE, pend |-> 0, pins |-> 0])
                      /\ g' = [g EXCEPT ![n].st = "got", ![n].local = Len(be) + 1]
                      /\ tent' = IF Active(n) THEN disk[p] ELSE tent
                      /\ q' = IF Active(n) THEN AddAllowed(q, disk[p]) ELSE q
                      /\ UNCHANGED bad
  /\ lastAct' = <<"GWork", n>>
  /\ UNCHANGED <<disk, gen, db, served, spath, wlock, shut, cache, epoch, r, nrel, cur, usedTent>>

\* the goroutine's critical section under m, then close(c)
GFinish(n) ==
  /\ g[n].st = "got"
  /\ LET l == g[n].local
         discard == l > 0 /\ g[n].destroyNew /\ l # g[n].fdbi
         unpin == FixStraggler
         be1 == IF discard THEN CloseBe(be, l) ELSE be
     IN /\ be' = IF unpin THEN [be1 EXCEPT ![g[n].fdbi].pins = @ - 1] ELSE be1
        /\ bad' = bad \cup Flag(discard /\ Closed(l), "DoubleClose")
        /\ g' = [g EXCEPT ![n].st = "fin", ![n].newDBI = IF discard THEN 0 ELSE l]
  /\ lastAct' = <<"GFinish", n>>
  /\ UNCHANGED <<disk, gen, db, served, spath, wlock, shut, cache, epoch, q, r, nrel, cur, tent, usedTent>>

\* select: ctx.Done() - may fire whether or not the goroutine has finished
RTimeout ==
  /\ AllowTimeout /\ r.pc = "wait"
  /\ (TimeoutAfterFinish \/ g[r.n].st # "fin")
  /\ LET n == r.n
         nd == g[n].newDBI
         closeIt == nd > 0 /\ nd # g[n].fdbi
     IN /\ be' = IF closeIt THEN CloseBe(be, nd) ELSE be
        /\ bad' = bad \cup Flag(closeIt /\ Closed(nd), "DoubleClose")
        /\ g' = IF closeIt THEN g ELSE [g EXCEPT ![n].destroyNew = TRUE]
  /\ r' = [r EXCEPT !.pc = "unlock", !.ok = FALSE]
  /\ lastAct' = <<"RTimeout">>
  /\ UNCHANGED <<disk, gen, db, served, spath, wlock, shut, cache, epoch, q, nrel, cur, tent, usedTent>>

\* select: <-c
RDone ==
  /\ r.pc = "wait" /\ g[r.n].st = "fin"
  /\ r' = IF g[r.n].newDBI = -1 THEN [r EXCEPT !.pc = "unlock", !.ok = FALSE] ELSE [r EXCEPT !.pc = "validate"]
  /\ lastAct' = <<"RDone">>
  /\ UNCHANGED <<disk, gen, be, db, served, spath, wlock, shut, cache, epoch, q, g, nrel, cur, tent, usedTent, bad>>

NewView(b) == IF FixSnapshot /\ be[b].pend # 0 THEN be[b].pend ELSE be[b].view

\* validateDbKeyOrDestroy on a FRESH wrapper around newDBI (NewReader, ForEach, Close = three touches)
RValidate ==
  /\ r.pc = "validate"
  /\ LET n == r.n
         nb == g[n].newDBI
         same == nb = g[n].fdbi
         valid == NewView(nb) \notin BadGens
         w == Len(db) + 1
         destroyIt == ~valid /\ ~(FixValidateSame /\ same)
     IN /\ db' = Append(db, [dbi |-> nb, ref |-> 0, destr |-> destroyIt])
        /\ be' = IF destroyIt THEN CloseBe(be, nb) ELSE be
        /\ bad' = bad \cup Flag(Closed(nb), "UseAfterClose") \cup Flag(destroyIt /\ Closed(nb), "DoubleClose")
        /\ r' = IF ~valid THEN [r EXCEPT !.pc = "unlock", !.ok = FALSE]
                ELSE IF same THEN [r EXCEPT !.pc = "install", !.res = g[n].f]
                ELSE [r EXCEPT !.pc = "install", !.res = w]
  /\ lastAct' = <<"RValidate">>
  /\ UNCHANGED <<disk, gen, served, spath, wlock, shut, cache, epoch, q, g, nrel, cur, tent, usedTent>>

\* f.Destroy() when the backend changed (mark the old wrapper, close its backend if nobody holds it), then
\* h.dnsdb = newDB; h.dbConfig.Path = newPath; h.lru.Purge().  One action: everything happens under the write
\* lock and an in-flight query cannot tell "between destroy and purge" from "before both".
RInstall ==
  /\ r.pc = "install"
  /\ LET f == g[r.n].f
         ob == db[f].dbi
         changed == r.res # f
         now == changed /\ db[f].ref = 0 /\ be[ob].pins = 0
         nb == db[r.res].dbi
         be1 == IF now THEN CloseBe(be, ob) ELSE be
     IN /\ db' = IF changed THEN [db EXCEPT ![f].destr = TRUE] ELSE db
        /\ be' = IF FixSnapshot /\ be1[nb].pend # 0 THEN [be1 EXCEPT ![nb].view = be1[nb].pend, ![nb].pend = 0] ELSE be1
        /\ bad' = bad \cup Flag(now /\ Closed(ob), "DoubleClose")
  /\ served' = r.res /\ spath' = r.path
  /\ cache' = {} /\ epoch' = epoch + 1
  /\ r' = [r EXCEPT !.pc = "unlock", !.ok = TRUE]
  /\ lastAct' = <<"RInstall">>
  /\ UNCHANGED <<disk, gen, wlock, shut, q, g, nrel, cur, tent, usedTent>>

\* deferred Unlock; Reload returns to its caller
RUnlock ==
  /\ r.pc = "unlock"
  /\ wlock' = FALSE /\ nrel' = nrel + 1
  /\ r' = [r EXCEPT !.pc = "idle"]
  /\ IF r.ok
       THEN /\ cur' = IF tent # 0 THEN tent ELSE cur
            /\ q' = q /\ bad' = bad
       ELSE /\ cur' = cur
            /\ q' = [p \in Procs |-> IF tent # 0 /\ tent # cur THEN [q[p] EXCEPT !.allowed = @ \ {tent}] ELSE q[p]]
            /\ bad' = bad \cup Flag(usedTent, "FailedReloadExposed")
  /\ tent' = 0 /\ usedTent' = FALSE
  /\ lastAct' = <<"RUnlock", IF r.ok THEN 1 ELSE 0>>
  /\ UNCHANGED <<disk, gen, be, db, served, spath, shut, cache, epoch, g>>

\* a straggler (goroutine of a timed-out reload) finishing a catch-up installs data of a reload that failed
\* - flagged through Visibility when a later response shows it.

\* FBDNSDB.Close
Shutdown ==
  /\ AllowShutdown /\ ~shut /\ ~wlock /\ r.pc = "idle"
  /\ \A p \in Procs : q[p].pc # "start"
  /\ shut' = TRUE
  /\ LET b == db[served].dbi
         now == db[served].ref = 0 /\ be[b].pins = 0
     IN /\ db' = [db EXCEPT ![served].destr = TRUE]
        /\ be' = IF now THEN CloseBe(be, b) ELSE be
        /\ bad' = bad \cup Flag(now /\ Closed(b), "DoubleClose")
  /\ lastAct' = <<"Shutdown">>
  /\ UNCHANGED <<disk, gen, served, spath, wlock, cache, epoch, q, r, g, nrel, cur, tent, usedTent>>

\* FixStraggler only: a backend whose destruction was deferred by a pin is closed when the pin goes away
PinRelease(b) ==
  /\ FixStraggler /\ b \in 1..Len(be) /\ be[b].open /\ be[b].pins = 0
  /\ \E d \in 1..Len(db) : db[d].dbi = b /\ db[d].destr /\ db[d].ref = 0
  /\ ~(\E d \in 1..Len(db) : db[d].dbi = b /\ ~db[d].destr /\ (d = served \/ db[d].ref > 0))
  /\ be' = CloseBe(be, b)
  /\ lastAct' = <<"PinRelease", b>>
  /\ UNCHANGED <<disk, gen, db, served, spath, wlock, shut, cache, epoch, q, r, g, nrel, cur, tent, usedTent, bad>>

Next ==
  \/ \E p \in {1, 2} : Publish(p)
  \/ \E p \in Procs : QStart(p) \/ QAcquire(p) \/ QLookup(p) \/ QRead1(p) \/ QRead2(p) \/ QInsert(p) \/ QWrite(p) \/ QRelease(p)
  \/ \E k \in {"full", "part"}, p \in Paths : RStart(k, p)
  \/ \E n \in 1..MaxReloads : GWork(n) \/ GFinish(n)
  \/ RTimeout \/ RDone \/ RValidate \/ RInstall \/ RUnlock
  \/ Shutdown
  \/ \E b \in 1..Len(be) : PinRelease(b)

Spec == Init /\ [][Next]_vars

\* ---------------------------------------------------------------- invariants
Quiescent == /\ \A p \in Procs : q[p].pc = "idle"
             /\ r.pc = "idle"
             /\ \A n \in 1..MaxReloads : g[n].st \in {"none", "fin"}
             /\ ~(\E b \in 1..Len(be) : ENABLED PinRelease(b))

OpenSet == {b \in 1..Len(be) : be[b].open}
NoLeak == Quiescent => OpenSet = (IF shut THEN {} ELSE {db[served].dbi})

NoUseAfterClose == "UseAfterClose" \notin bad
CloseOnce == "DoubleClose" \notin bad
Visibility == "Visibility" \notin bad
SingleGeneration == "MixedGenerations" \notin bad
Monotonic == "WentBackwards" \notin bad
FailedReloadIsNoop == "FailedReloadExposed" \notin bad
StaleNeverServed == "StaleCacheServed" \notin bad
\* served backend stays open while it is the served one
ServedOpen == (~shut /\ ~wlock) => be[db[served].dbi].open
\* a partial reload follows the database last switched to
PartialFollowsSwitch == r.kind = "part" /\ r.pc # "idle" => r.path = spath

AllSafe == NoUseAfterClose /\ CloseOnce /\ Visibility /\ SingleGeneration /\ Monotonic /\ FailedReloadIsNoop
           /\ StaleNeverServed /\ NoLeak /\ ServedOpen /\ PartialFollowsSwitch
=============================================================================
