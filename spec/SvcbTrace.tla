----------------------------- MODULE SvcbTrace -----------------------------
(* Trace validation for C18.  Lines (written by `vh svcb`):
   {"ev":"svcb","ids":[..],"text":"..","accepted":B,"wire":[..],"rewire":[..],"reerr":"","retext":"..",
    "decoded":[{"key":K,"sem":[[..],..]},..],"decerr":""}
   accepted / wire : real FromText + ToWire;  rewire : ToText -> FromText -> ToWire;  decoded : the full HTTPS record
   built by the real codec, unpacked by miekg/dns, values as byte strings.                                        *)
EXTENDS Svcb

Trace == ndJsonDeserialize("trace.ndjson")
\* miekg/dns refuses to represent an IPv4-mapped address as an ipv6hint (a limit of its net.IP representation, not of
\* RFC 9460): for lists holding candidate 17 the wire form is judged by Wire alone
MappedHint == 17
VARIABLE l

Verdict(e) ==
  IF e.accepted # Accept(e.ids) THEN (IF e.accepted THEN "malformed-list-accepted" ELSE "well-formed-list-rejected")
  ELSE IF ~e.accepted THEN "ok"
  ELSE IF e.wire # Wire(e.ids) THEN "wire-form"
  ELSE IF e.reerr # "" THEN "printed-text-does-not-parse"
  ELSE IF e.rewire # e.wire THEN "text-round-trip-changes-wire"
  ELSE IF MappedHint \in {e.ids[i] : i \in 1..Len(e.ids)} THEN "ok"
  ELSE IF e.decerr # "" THEN "independent-decoder-rejects"
  ELSE IF e.decoded # Declared(e.ids) THEN "independent-decoder-differs"
  ELSE "ok"

TInit == l = 1 /\ lst = <<>>
TNext == /\ l <= Len(Trace)
         /\ LET v == Verdict(Trace[l]) IN IF v = "ok" THEN TRUE ELSE PrintT(<<"REJECT", l, v>>)
         /\ l' = l + 1 /\ UNCHANGED lst
Done == l = Len(Trace) + 1 => PrintT(<<"ACCEPTED", Len(Trace)>>)
TSpec == TInit /\ [][TNext]_<<l, lst>>
=============================================================================
