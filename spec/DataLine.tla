------------------------------ MODULE DataLine ------------------------------
(* C09 (first half): the grammar of data-file lines - which fields a line type has, which of them are optional -
   as a generator of abstract lines (the `line` records of Resolve.tla), one TLC state per line:
   every line type x wildcard owner (where the type honours it) x location x explicit / default TTL x IPv4 / IPv6 /
   no address x short / full target x optional numeric fields present / absent x owner and target labels that need
   escaping (':' ',' '\' space, a non-ASCII byte).  The harness renders each line with both separators, and the real
   codec must accept it, re-serialise it (MarshalText) to a text that parses to a record compiling to exactly the same
   keys and values, and re-serialise that again to the same text (LineTrace.tla).                               *)
EXTENDS Integers, Sequences, FiniteSets, TLC, Json

LA == <<97>>
LZ == <<122>>
LSP == <<97, 58, 44, 92, 32, 200>>        \* "a:,\ " + byte 200: every character class the quoting must handle
LUP == <<65, 98>>                          \* "Ab": letter case of a target must survive (owner names are case-folded in keys only)
LCOL == <<97, 58, 98>>                     \* "a:b": only the legacy separator, nothing else that forces quoting
IP4 == <<0, 0, 0, 0, 0, 0, 0, 0, 0, 0, 255, 255, 192, 0, 2, 1>>
IP6 == <<32, 1, 13, 184, 0, 0, 0, 0, 0, 0, 0, 0, 0, 0, 0, 255>>
NONE == <<-1>>

Ln(t, dom, wild, loc, ttl, ipf, x, xshort, y, num, rd) ==
  [t |-> t, dom |-> dom, wild |-> wild, loc |-> loc, ttl |-> ttl, ipf |-> ipf, ipb |-> IF ipf = 4 THEN IP4 ELSE IF ipf = 6 THEN IP6 ELSE <<>>,
   x |-> x, xshort |-> xshort, y |-> y, num |-> num, rd |-> rd, map |-> 0, netlen |-> 0]

Owners == {<<LA, LZ>>, <<LSP, LZ>>, <<LCOL, LZ>>}
Locs == {0, 258}
Ttls == {-1, 0, 60}
Targets == {[x |-> <<LA>>, s |-> TRUE], [x |-> <<LA, LZ>>, s |-> FALSE], [x |-> <<LSP, LA, LZ>>, s |-> FALSE], [x |-> <<LCOL, LZ>>, s |-> FALSE], [x |-> <<LUP, LZ>>, s |-> FALSE], [x |-> <<LUP>>, s |-> TRUE]}

AllLines ==
  {Ln("Z", o, FALSE, lo, ttl, 0, <<LA, LZ>>, FALSE, <<LSP, LZ>>, n, <<>>) :
      o \in Owners, lo \in Locs, ttl \in Ttls, n \in {<<-1, -1, -1, -1, -1>>, <<7, -1, -1, -1, -1>>, <<2024010101, 3600, 600, 604800, 300>>}}
  \cup {Ln(t, o, FALSE, lo, ttl, f, tg.x, tg.s, <<>>, NONE, <<>>) :
      t \in {".", "&"}, o \in Owners, lo \in Locs, ttl \in Ttls, f \in {0, 4, 6}, tg \in Targets}
  \cup {Ln("+", o, w, lo, ttl, f, <<>>, FALSE, <<>>, n, <<>>) :
      o \in Owners, w \in BOOLEAN, lo \in Locs, ttl \in Ttls, f \in {4, 6}, n \in {<<-1>>, <<0>>, <<5>>}}
  \cup {Ln("=", o, FALSE, lo, ttl, f, <<>>, FALSE, <<>>, NONE, <<>>) : o \in Owners, lo \in Locs, ttl \in Ttls, f \in {4, 6}}
  \cup {Ln("@", o, FALSE, lo, ttl, f, tg.x, tg.s, <<>>, n, <<>>) :
      o \in Owners, lo \in Locs, ttl \in Ttls, f \in {0, 4}, tg \in Targets, n \in {<<-1>>, <<10>>}}
  \cup {Ln("S", o, FALSE, lo, ttl, f, tg.x, tg.s, <<>>, n, <<>>) :
      o \in Owners, lo \in Locs, ttl \in {-1, 60}, f \in {0, 4}, tg \in Targets, n \in {<<-1, -1, -1>>, <<443, -1, -1>>, <<443, 10, 5>>}}
  \cup {Ln("C", o, w, lo, ttl, 0, tg.x, FALSE, <<>>, NONE, <<>>) : o \in Owners, w \in BOOLEAN, lo \in Locs, ttl \in Ttls, tg \in {t \in Targets : ~t.s}}
  \cup {Ln("^", o, FALSE, lo, ttl, 0, tg.x, FALSE, <<>>, NONE, <<>>) : o \in Owners, lo \in Locs, ttl \in Ttls, tg \in {t \in Targets : ~t.s}}
  \cup {Ln("'", o, w, lo, ttl, 0, <<>>, FALSE, <<>>, NONE, rd) :
      o \in Owners, w \in BOOLEAN, lo \in Locs, ttl \in Ttls, rd \in {<<116>>, <<118, 61, 49, 32, 44, 58, 92, 34, 0, 200, 10>>, <<>>}}
  \cup {Ln(":", o, FALSE, lo, ttl, 0, <<>>, FALSE, <<>>, <<ty>>, rd) :
      o \in Owners, lo \in Locs, ttl \in Ttls, ty \in {13, 65280}, rd \in {<<>>, <<1, 0, 44, 58, 92, 255>>}}
  \cup {Ln(t, o, w, lo, ttl, 0, tg, FALSE, <<>>, <<pr>>, rd) :
      t \in {"H", "B"}, o \in Owners, w \in BOOLEAN, lo \in Locs, ttl \in {-1, 60}, tg \in {<<>>, <<LA, LZ>>}, pr \in {0, 1},
      rd \in {<<>>, <<0, 1, 0, 3, 2, 104, 50>>, <<0, 3, 0, 2, 32, 251>>}}
  \cup {[Ln(t, o, w, 0, -1, 0, <<>>, FALSE, <<>>, NONE, <<>>) EXCEPT !.map = 28001] : t \in {"M", "8"}, o \in Owners, w \in BOOLEAN}
  \cup {[Ln("%", <<>>, FALSE, lo, -1, f, <<>>, FALSE, <<>>, NONE, <<>>) EXCEPT !.map = 28001, !.netlen = nl] :
      lo \in {258}, f \in {4, 6}, nl \in {96, 104, 120, 128}}

VARIABLE line
Init == line \in AllLines
Next == UNCHANGED line
Spec == Init /\ [][Next]_line
Emit == PrintT(ToJson(line))
=============================================================================
