------------------------------ MODULE QuoteMC ------------------------------
(* Self-check of the escape grammar (Quote.tla): two trivially correct encoders - every byte as a 3-digit octal
   escape, every byte as a 2-digit hex escape - decode back to the string and contain no separator, for every byte
   string of length <= MaxLen; a string without a backslash decodes to itself.  So the judge used on the real
   Bquote / Bunquote is neither unsatisfiable nor blind to the escapes the real encoder emits.                  *)
EXTENDS Quote, TLC

CONSTANT MaxLen
VARIABLE s
Init == \E n \in 0..MaxLen : s \in [1..n -> 0..255]
Next == UNCHANGED s
Spec == Init /\ [][Next]_s

HexDigit(n) == IF n < 10 THEN 48 + n ELSE 87 + n
RECURSIVE OctEnc(_)
OctEnc(x) == IF x = <<>> THEN <<>>
             ELSE <<92, 48 + (Head(x) \div 64), 48 + ((Head(x) \div 8) % 8), 48 + (Head(x) % 8)>> \o OctEnc(Tail(x))
RECURSIVE HexEnc(_)
HexEnc(x) == IF x = <<>> THEN <<>>
             ELSE <<92, 120, HexDigit(Head(x) \div 16), HexDigit(Head(x) % 16)>> \o HexEnc(Tail(x))

GrammarOk == /\ Decode(OctEnc(s)) = s /\ NoSep(OctEnc(s))
             /\ Decode(HexEnc(s)) = s /\ NoSep(HexEnc(s))
             /\ (\A i \in 1..Len(s) : s[i] # 92) => Decode(s) = s
=============================================================================
