------------------------------- MODULE Control -------------------------------
(* The control plane around FBDNSDB.Reload (dnsserver/db.go), an extension of the Serve model towards shutdown:

     producers   PeriodicDBReload, the DB watcher, the control-directory watcher, Server.ReloadDB: a loop
                   select { case <-done: return ; case <-tick: SignalReload(signal) }
                   SignalReload:  select { case ReloadChan <- signal: ; case <-done: }          (since fix F21)
     consumer    the goroutine started by NewFBDNSDB:
                   for { select { case <-done: return ; case s := <-ReloadChan: Reload(s) } }   (Reload takes reloadMu)
     closer      FBDNSDB.Close: reloadMu.Lock(); close(done); dnsdb.Destroy(); Unlock           (ReloadChan stays open)
   Before fix F21 (SelectSend = FALSE): the send was a plain statement, the consumer ranged over ReloadChan and Close
   closed it after done.

   ReloadChan is unbuffered: a send completes only in a rendezvous with the consumer's receive.
   Properties (part of C14 "... with shutdown ... do not crash", and of C06 for the database):
     NoSendOnClosedChannel   no producer is at (or blocked in) its send when the channel gets closed - in Go that send
                             panics and takes the process down
     NoReloadAfterDestroy    the consumer never runs Reload on the database that Close has destroyed
     Termination             after Close every process terminates
   ReloadChecksDone = TRUE: Reload, once it holds the lock, returns at once when done is closed (the code since fix F20).
   SelectSend = TRUE  is the code (fix F21): producers send inside a select that also watches done, Close does not
   close ReloadChan, the consumer watches done.
   SelectSend = FALSE is the code before F21: the tick case is chosen first and the send is a plain statement; TLC finds
   the send on the closed channel there (kept as the regression variant: the model must tell the two apart).                                                                       *)
EXTENDS Integers, FiniteSets, TLC

CONSTANTS Producers, SelectSend, ReloadChecksDone, MaxTicks

VARIABLES mu,          \* "free" | "reload" | "close"     who holds reloadMu (writers only)
          doneClosed, chanClosed, destroyed,
          prod,        \* [p -> "wait" | "send" | "exit" | "panic"]
          cons,        \* "recv" | "lock" | "reload" | "exit"
          closer,      \* "idle" | "lock" | "closing" | "done"
          ticks, reloadAfterDestroy
vars == <<mu, doneClosed, chanClosed, destroyed, prod, cons, closer, ticks, reloadAfterDestroy>>

Init == /\ mu = "free" /\ doneClosed = FALSE /\ chanClosed = FALSE /\ destroyed = FALSE
        /\ prod = [p \in Producers |-> "wait"] /\ cons = "recv" /\ closer = "idle" /\ ticks = 0 /\ reloadAfterDestroy = FALSE

\* a producer's select picks the tick case (possible even when done is closed: Go chooses among ready cases at random)
Tick(p) == /\ prod[p] = "wait" /\ ticks < MaxTicks
           /\ prod' = [prod EXCEPT ![p] = "send"] /\ ticks' = ticks + 1
           /\ UNCHANGED <<mu, doneClosed, chanClosed, destroyed, cons, closer, reloadAfterDestroy>>
ProdExit(p) == /\ prod[p] = "wait" /\ doneClosed
               /\ prod' = [prod EXCEPT ![p] = "exit"]
               /\ UNCHANGED <<mu, doneClosed, chanClosed, destroyed, cons, closer, ticks, reloadAfterDestroy>>
\* the repaired send gives up when done is closed
SendGiveUp(p) == /\ SelectSend /\ prod[p] = "send" /\ doneClosed
                 /\ prod' = [prod EXCEPT ![p] = "exit"]
                 /\ UNCHANGED <<mu, doneClosed, chanClosed, destroyed, cons, closer, ticks, reloadAfterDestroy>>
Rendezvous(p) == /\ prod[p] = "send" /\ cons = "recv" /\ ~chanClosed
                 /\ prod' = [prod EXCEPT ![p] = "wait"] /\ cons' = "lock"
                 /\ UNCHANGED <<mu, doneClosed, chanClosed, destroyed, closer, ticks, reloadAfterDestroy>>
SendPanics(p) == /\ prod[p] = "send" /\ chanClosed
                 /\ prod' = [prod EXCEPT ![p] = "panic"]
                 /\ UNCHANGED <<mu, doneClosed, chanClosed, destroyed, cons, closer, ticks, reloadAfterDestroy>>

ConsLock == /\ cons = "lock" /\ mu = "free"
            /\ mu' = "reload" /\ cons' = "reload"
            /\ reloadAfterDestroy' = (reloadAfterDestroy \/ (destroyed /\ ~ReloadChecksDone))     \* Reload checks done once it holds the lock
            /\ UNCHANGED <<doneClosed, chanClosed, destroyed, prod, closer, ticks>>
ConsUnlock == /\ cons = "reload" /\ mu' = "free" /\ cons' = "recv"
              /\ UNCHANGED <<doneClosed, chanClosed, destroyed, prod, closer, ticks, reloadAfterDestroy>>
\* range over a closed channel ends; the repaired consumer also ends when done is closed
ConsExit == /\ cons = "recv" /\ (chanClosed \/ (SelectSend /\ doneClosed))
            /\ cons' = "exit"
            /\ UNCHANGED <<mu, doneClosed, chanClosed, destroyed, prod, closer, ticks, reloadAfterDestroy>>
\* the repaired consumer checks done before taking the lock for a signal it has already received
ConsSkip == /\ SelectSend /\ cons = "lock" /\ doneClosed
            /\ cons' = "exit"
            /\ UNCHANGED <<mu, doneClosed, chanClosed, destroyed, prod, closer, ticks, reloadAfterDestroy>>

CloseCall == /\ closer = "idle" /\ closer' = "lock"
             /\ UNCHANGED <<mu, doneClosed, chanClosed, destroyed, prod, cons, ticks, reloadAfterDestroy>>
CloseLock == /\ closer = "lock" /\ mu = "free" /\ mu' = "close" /\ closer' = "closing"
             /\ UNCHANGED <<doneClosed, chanClosed, destroyed, prod, cons, ticks, reloadAfterDestroy>>
CloseDo == /\ closer = "closing"
           /\ doneClosed' = TRUE /\ chanClosed' = ~SelectSend /\ destroyed' = TRUE
           /\ mu' = "free" /\ closer' = "done"
           /\ UNCHANGED <<prod, cons, ticks, reloadAfterDestroy>>

Finished == closer = "done" /\ cons = "exit" /\ \A p \in Producers : prod[p] \in {"exit", "panic"}
Next == (\E p \in Producers : Tick(p) \/ ProdExit(p) \/ SendGiveUp(p) \/ Rendezvous(p) \/ SendPanics(p))
        \/ ConsLock \/ ConsUnlock \/ ConsExit \/ ConsSkip \/ CloseCall \/ CloseLock \/ CloseDo
        \/ (Finished /\ UNCHANGED vars)
Spec == Init /\ [][Next]_vars /\ WF_vars(Next)

NoSendOnClosedChannel == \A p \in Producers : prod[p] # "panic"
NoReloadAfterDestroy == ~reloadAfterDestroy
\* once Close has been called everything winds down (no process stays blocked for ever)
Termination == (closer # "idle") ~> Finished
=============================================================================
