-------------------------------- MODULE Wire --------------------------------
(* C13: any wire-valid query gets a well-formed reply or none; the handler never panics.

   The reply contract, as a predicate over (query descriptor, observed outcome), and the structured query space as a
   generator (TLC enumerates it, one state per descriptor).  A descriptor names its ingredients by small ids that
   the driver (vh sem, event "wire") turns into a real message:
     name   0 root, 1 existing name, 2 missing name, 3 127 labels / 255 bytes, 4 three 63-byte labels, 5 label with NUL,
            6 label containing a dot, 7 non-ASCII label, 8 upper case, 9 delegation, 10 below the delegation,
            11 outside every zone, 12 literal "*" label, 13 zone apex, 14 name with > 2000 bytes of TXT (truncation),
            15 name with about 1100 bytes of TXT (replies close to the buffer sizes swept below)
     opts   0 none, 1 unknown option 65001, 2 cookie, 3 two ECS options, 4 ECS family 0, 5 ECS family 3, 6 ECS IPv4 source
            length 33 with 5 address bytes, 7 ECS address shorter than the source length, 8 ECS address longer than it,
            9 ECS with a non-zero scope, 10 NSID, 11 padding, 12 unknown option + valid ECS, 13 ECS IPv6 source length 129,
            14 one valid IPv4 /24 ECS, 15 one valid IPv6 /128 ECS
   Contract (Verdict):
     no panic; if something was written: it packs, carries the query's id and (first) question, has QR set, and is
     no longer than the advertised size (512 without EDNS) unless TC is set; an EDNS version other than 0 gets
     BADVERS; options the server does not know leave rcode and sections as they are without them.                *)
EXTENDS Integers, Sequences, FiniteSets, TLC, Json

Names == 0..15
Types == {0, 1, 2, 6, 16, 28, 41, 43, 251, 252, 255, 65535}
Classes == {1, 3, 254, 255, 0}
Opcodes == {0, 1, 2, 4, 5}
Ednss == {-1, 0, 1, 255}            \* -1: no OPT record
Sizes == {0, 100, 512, 1232, 4096, 65535}
Optss == 0..15
Flagss == 0..7                      \* bit 0 RD, bit 1 CD, bit 2 AD;  8 = QR set in the query, 9 = TC + AA set
UnknownOnly == {1, 2, 10, 11, 12}   \* option lists that differ from their base only by options the server does not know

D(n, t, c, o, e, s, op, f) == [name |-> n, type |-> t, class |-> c, opcode |-> o, edns |-> e, size |-> s, opts |-> op, flags |-> f]

Space ==
  {D(n, t, c, 0, e, 4096, 0, 1) : n \in Names, t \in Types, c \in Classes, e \in {-1, 0}}
  \cup {D(n, t, 1, o, e, s, op, f) : n \in {0, 1, 9, 11, 14}, t \in {1, 16, 43, 255}, o \in Opcodes, e \in Ednss, s \in {512, 4096}, op \in {0, 1, 3}, f \in {0, 8, 9}}
  \cup {D(n, t, 1, 0, e, s, op, f) : n \in {1, 2, 13, 14}, t \in {1, 16}, e \in {0, 1}, s \in Sizes, op \in Optss, f \in {0, 7}}
  \* every buffer size around the size of a reply: something added after the size check pushes the reply over the limit
  \cup {D(15, 16, 1, 0, 0, s, op, 0) : s \in 1000..1300, op \in {0, 14, 15}}

VARIABLE q
Init == q \in Space
Next == UNCHANGED q
Spec == Init /\ [][Next]_q
Emit == PrintT(ToJson(q))

\* ------------------------------------------------------------------ the contract
Limit(d) == IF d.edns = -1 THEN 512 ELSE IF d.size < 512 THEN 512 ELSE d.size
Verdict(d, o) ==
  IF ~o.delivered THEN "ok"            \* the codec refused the message (e.g. ECS source length beyond the family): the handler never saw it
  ELSE IF o.panic # "" THEN "panic"
  ELSE IF ~o.written THEN (IF d.edns > 0 THEN "badvers-expected" ELSE "ok")
  ELSE IF o.packerr # "" THEN "unpackable-response"
  ELSE IF ~o.id_ok THEN "id-changed"
  ELSE IF ~o.qr THEN "qr-not-set"
  ELSE IF ~o.q_ok THEN "question-changed"
  ELSE IF o.size > Limit(d) /\ ~o.tc THEN "too-big-not-truncated"
  ELSE IF o.size > Limit(d) THEN "truncated-reply-exceeds-buffer"
  ELSE IF d.edns > 0 /\ o.rcode # 16 THEN "badvers-expected"
  ELSE IF d.opts \in UnknownOnly /\ ~o.base_same THEN "unknown-option-changed-answer"
  ELSE "ok"
=============================================================================
