------------------------------- MODULE DiffMC -------------------------------
EXTENDS Diff
\* line 1 and line 3 emit the same pair; line 2 puts two values under key 1 and one under key 2; line 4 emits nothing
MCCodec == << << <<1, "a">> >>, << <<1, "b">>, <<1, "a">>, <<2, "a">> >>, << <<1, "a">> >>, <<>>, << <<2, "a">>, <<2, "b">> >> >>
=============================================================================
