---------------------------- MODULE ControlTrace ----------------------------
(* Replay of the Control.tla leads on the real control plane: {"ev":"control","scenario":..,"outcome":..,"uses_after_destroy":N} *)
EXTENDS Integers, Sequences, Json, TLC
Trace == ndJsonDeserialize("trace.ndjson")
VARIABLE l
Verdict(e) == IF e.ev # "control" THEN "ok"
              ELSE IF e.uses_after_destroy # 0 THEN "UseAfterClose"
              ELSE IF e.outcome # "clean" THEN e.outcome
              ELSE "ok"
Init == l = 1
Next == /\ l <= Len(Trace)
        /\ LET v == Verdict(Trace[l]) IN IF v = "ok" THEN TRUE ELSE PrintT(<<"REJECT", l, v>>)
        /\ l' = l + 1
Done == l = Len(Trace) + 1 => PrintT(<<"ACCEPTED", Len(Trace)>>)
Spec == Init /\ [][Next]_l
=============================================================================
