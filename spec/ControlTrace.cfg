SPECIFICATION Spec
INVARIANT Done
CHECK_DEADLOCK FALSE
