----------------------------- MODULE Lifecycle -----------------------------
(* The reference-counting core of C06 for ONE database object (db.DB), with an unbounded number of readers and
   reloads - the part of Serve.tla that TLC can only check for 2-3 readers.  Apalache discharges IndInv as an
   inductive invariant (Init => IndInv; IndInv /\ Next => IndInv'), i.e. for every number of readers and every
   history:
     CloseOnce         the backend is closed at most once
     NoUseAfterClose   a reader that holds the database never sees it closed
     ClosedWhenDone    once it is replaced (destroyable) and the last reader is gone, it is closed
   Actions mirror db.NewReader (refCount++ under the lock, only while the database is the served one - FBDNSDB hands
   out readers under reloadMu.RLock), Reader.Close (refCount--, close if destroyable and 0), DB.Destroy (called by a
   reload that installed another database, or by shutdown: destroyable, close if 0).                            *)
EXTENDS Integers

VARIABLES
  \* @type: Int;
  refCount,
  \* @type: Bool;
  served,
  \* @type: Bool;
  destroyable,
  \* @type: Int;
  closes,
  \* @type: Int;
  usesAfterClose

Init == refCount = 0 /\ served = TRUE /\ destroyable = FALSE /\ closes = 0 /\ usesAfterClose = 0

\* db.NewReader under FBDNSDB.reloadMu.RLock: only the served database hands out readers
Acquire == /\ served
           /\ refCount' = refCount + 1
           /\ UNCHANGED <<served, destroyable, closes, usesAfterClose>>

\* a reader touches the backend
Use == /\ refCount > 0
       /\ usesAfterClose' = IF closes > 0 THEN usesAfterClose + 1 ELSE usesAfterClose
       /\ UNCHANGED <<refCount, served, destroyable, closes>>

\* Reader.Close
Release == /\ refCount > 0
           /\ refCount' = refCount - 1
           /\ closes' = IF destroyable /\ refCount = 1 THEN closes + 1 ELSE closes
           /\ UNCHANGED <<served, destroyable, usesAfterClose>>

\* DB.Destroy: a successful reload to another database, or shutdown (under reloadMu.Lock: no Acquire in between)
Destroy == /\ served
           /\ served' = FALSE /\ destroyable' = TRUE
           /\ closes' = IF refCount = 0 THEN closes + 1 ELSE closes
           /\ UNCHANGED <<refCount, usesAfterClose>>

Next == Acquire \/ Use \/ Release \/ Destroy

\* ------------------------------------------------------------------ properties
CloseOnce == closes <= 1
NoUseAfterClose == usesAfterClose = 0
ClosedWhenDone == (destroyable /\ refCount = 0) => closes = 1

\* inductive invariant
IndInv == /\ refCount >= 0 /\ closes >= 0 /\ closes <= 1 /\ usesAfterClose = 0
          /\ served = ~destroyable
          /\ (closes = 1) = (destroyable /\ refCount = 0)
\* the same as an initial-state predicate in assignment form (Apalache needs x \in S before constraints on x)
IndInit == /\ refCount \in Nat /\ closes \in {0, 1} /\ usesAfterClose \in {0} /\ served \in BOOLEAN /\ destroyable \in BOOLEAN
           /\ IndInv
Safety == CloseOnce /\ NoUseAfterClose /\ ClosedWhenDone
=============================================================================
