SPECIFICATION Spec
CONSTANTS Getters = {1, 2}  N = 2  MaxGets = 2  CatchUpMayFail = FALSE  AtomicFlag = TRUE  PutChecksFlag = FALSE
INVARIANTS Conservation NoRace NoDeadlock
CHECK_DEADLOCK FALSE
