------------------------------ MODULE CdbFile ------------------------------
(* C16: a written CDB file returns every value of a key, in insertion order, then end-of-data, and nothing for a key
   that was never written.

   Property layer : the file is the sequence of <<key, value>> pairs written; Values(k) = its values in order.
   Implementation layer (go-cdb-mods writer.Close / Cdb.find): T hash tables (real: 256), a pair goes to table
   hash % T; a table with n entries has 2n slots; entries are placed in insertion order at (hash \div T) % slots with
   linear probing and wrap-around; a lookup starts at that slot and walks (with wrap-around) until an empty slot or
   until it has looked at `slots` slots, yielding the entries whose stored hash AND key equal the searched ones.
   The hash function is arbitrary: TLC ranges over EVERY function Keys -> 0..HB-1, i.e. every collision pattern
   (same table, same start slot, chains that wrap around the table end).  KeyCheck = FALSE models a reader that
   trusts the hash alone.                                                                                        *)
EXTENDS Integers, Sequences, FiniteSets, TLC, Json

CONSTANTS Keys, Vals, T, HB, MaxPairs, KeyCheck, EmitJson

VARIABLES hash, pairs
Init == hash \in [Keys -> 0..(HB - 1)] /\ pairs = <<>>
Next == /\ Len(pairs) < MaxPairs
        /\ \E k \in Keys, v \in Vals : pairs' = Append(pairs, <<k, v>>)
        /\ UNCHANGED hash
Spec == Init /\ [][Next]_<<hash, pairs>>

\* ------------------------------------------------------------------ property layer
Values(k) == LET idx == SelectSeq([i \in 1..Len(pairs) |-> i], LAMBDA i : pairs[i][1] = k)
             IN [j \in 1..Len(idx) |-> pairs[idx[j]][2]]

\* ------------------------------------------------------------------ implementation layer
Entries(t) == SelectSeq([i \in 1..Len(pairs) |-> i], LAMBDA i : hash[pairs[i][1]] % T = t)     \* indices into pairs
NSlots(t) == 2 * Len(Entries(t))

RECURSIVE Probe(_, _, _)
Probe(tab, pos, n) == IF tab[pos + 1] = 0 THEN pos ELSE Probe(tab, (pos + 1) % n, n)
RECURSIVE Place(_, _, _)
\* tab: sequence of n slots (0 = empty, else index into pairs), 0-based positions stored at tab[pos + 1]
Place(tab, es, n) ==
  IF es = <<>> THEN tab
  ELSE LET e == Head(es)
           p == Probe(tab, (hash[pairs[e][1]] \div T) % n, n)
       IN Place([tab EXCEPT ![p + 1] = e], Tail(es), n)
Table(t) == LET n == NSlots(t) IN Place([i \in 1..n |-> 0], Entries(t), n)

RECURSIVE Walk(_, _, _, _, _)
Walk(tab, k, pos, loop, n) ==
  IF loop = n \/ tab[pos + 1] = 0 THEN <<>>
  ELSE LET e == tab[pos + 1]
           hit == hash[pairs[e][1]] = hash[k] /\ (KeyCheck => pairs[e][1] = k)
       IN (IF hit THEN <<pairs[e][2]>> ELSE <<>>) \o Walk(tab, k, (pos + 1) % n, loop + 1, n)
Lookup(k) == LET t == hash[k] % T
                 n == NSlots(t)
             IN IF n = 0 THEN <<>> ELSE Walk(Table(t), k, (hash[k] \div T) % n, 0, n)

LookupCorrect == \A k \in Keys : Lookup(k) = Values(k)
Emit == EmitJson => PrintT(ToJson(pairs))
=============================================================================
