------------------------------ MODULE Compile ------------------------------
(* Implementation layer of C07: the compilation pipeline of dnsdata.ParseStream + the three sinks
   (cdb.CreateCDBFromReader, rdb.compileBatches, rdb.compileBuilder), against the property layer "the compiled
   database, as a map from key to multiset of values, equals what the line-by-line codec emits".

   scanner --lines--> W parser workers --record lists--> sink
     sink "cdb"     : sequential Put in arrival order
     sink "batch"   : records are collected into batches of BatchSize; a full batch is handed to an executor
                      goroutine (at most P at a time); ExecuteBatch = read the current values of the affected keys,
                      integrate, write - under the store's write mutex (UseMutex) - then the final flush
     sink "builder" : collect everything, sort by key, split into buckets (createBuckets: at least MinBucket items,
                      at most MaxBuckets, equal keys never split), one SST per bucket with the values of equal keys
                      concatenated, ingest (a key present in two SSTs would keep only the later file's value)
   A line the codec rejects makes the run fail.  The codec is abstract: Codec[l] is the sequence of <<key, value>>
   pairs of line l (a rejected line: the pair with key 0).  TLC explores every interleaving of scanner, workers, sink and executors.          *)
EXTENDS MVStore, TLC

CONSTANTS NLines,       \* lines 1..NLines
          Codec,        \* [1..NLines -> Seq(<<key, value>>)]
          W,            \* parser workers
          Sink,         \* "cdb" | "batch" | "builder"
          BatchSize, P, UseMutex,
          MinBucket, MaxBuckets, KeepKeysTogether

VARIABLES next,      \* next line the scanner reads
          lineq,     \* channel scanner -> workers (sequence of line numbers)
          busy,      \* [worker -> line or 0]
          results,   \* channel workers -> sink (sequence of record lists)
          acc,       \* batch sink: current batch; builder sink: collected records; cdb: unused
          execs,     \* batch sink: executors, a function id -> [adds, phase, snap]
          nexec,     \* executor ids handed out
          mutex,     \* id of the executor holding the write mutex, 0 = free
          store,     \* the database
          failed, done
vars == <<next, lineq, busy, results, acc, execs, nexec, mutex, store, failed, done>>

Workers == 1..W
\* a rejected line is written as the one-pair list << <<0, "bad">> >> (TLC cannot compare a sequence with a string)
IsBad(x) == x # <<>> /\ x[1][1] = 0
Bad == \E l \in 1..NLines : IsBad(Codec[l])

RECURSIVE Flatten(_)
Flatten(ss) == IF ss = <<>> THEN <<>> ELSE Head(ss) \o Flatten(Tail(ss))
Reference == ApplyAdds(Empty, Flatten([l \in 1..NLines |-> IF IsBad(Codec[l]) THEN <<>> ELSE Codec[l]]))

Init == /\ next = 1 /\ lineq = <<>> /\ busy = [w \in Workers |-> 0] /\ results = <<>> /\ acc = <<>>
        /\ execs = [i \in {} |-> 0] /\ nexec = 0 /\ mutex = 0 /\ store = Empty /\ failed = FALSE /\ done = FALSE

Scan == /\ ~failed /\ next <= NLines /\ Len(lineq) < 2
        /\ lineq' = Append(lineq, next) /\ next' = next + 1
        /\ UNCHANGED <<busy, results, acc, execs, nexec, mutex, store, failed, done>>

Take(w) == /\ ~failed /\ busy[w] = 0 /\ lineq # <<>>
           /\ busy' = [busy EXCEPT ![w] = Head(lineq)] /\ lineq' = Tail(lineq)
           /\ UNCHANGED <<next, results, acc, execs, nexec, mutex, store, failed, done>>

\* a worker converts its line: a rejected line fails the whole run, otherwise the record list goes to the sink
Convert(w) == /\ busy[w] # 0 /\ Len(results) < W
              /\ IF IsBad(Codec[busy[w]])
                   THEN failed' = TRUE /\ results' = results
                   ELSE failed' = failed /\ results' = Append(results, Codec[busy[w]])
              /\ busy' = [busy EXCEPT ![w] = 0]
              /\ UNCHANGED <<next, lineq, acc, execs, nexec, mutex, store, done>>

\* ---- sinks
Running == {i \in DOMAIN execs : execs[i].phase # "done"}

RECURSIVE SplitBatches(_, _)
\* cut a record sequence into [full batches, remainder]
SplitBatches(recs, size) == IF Len(recs) < size THEN [full |-> <<>>, rest |-> recs]
                            ELSE LET r == SplitBatches(SubSeq(recs, size + 1, Len(recs)), size)
                                 IN [full |-> <<SubSeq(recs, 1, size)>> \o r.full, rest |-> r.rest]

SinkCdb == /\ Sink = "cdb" /\ results # <<>>
           /\ store' = ApplyAdds(store, Head(results)) /\ results' = Tail(results)
           /\ UNCHANGED <<next, lineq, busy, acc, execs, nexec, mutex, failed, done>>

\* the batch sink takes one record list; every batch it completes needs a free executor slot (the limiter)
SinkBatch == /\ Sink = "batch" /\ results # <<>>
             /\ LET sp == SplitBatches(acc \o Head(results), BatchSize) IN
                /\ Cardinality(Running) + Len(sp.full) <= P
                /\ execs' = [i \in (DOMAIN execs) \cup ((nexec + 1)..(nexec + Len(sp.full))) |->
                               IF i \in DOMAIN execs THEN execs[i] ELSE [adds |-> sp.full[i - nexec], phase |-> "start", snap |-> Empty]]
                /\ nexec' = nexec + Len(sp.full)
                /\ acc' = sp.rest
             /\ results' = Tail(results)
             /\ UNCHANGED <<next, lineq, busy, mutex, store, failed, done>>

Keys(adds) == {adds[i][1] : i \in 1..Len(adds)}
Restrict(s, ks) == [k \in (DOMAIN s) \cap ks |-> s[k]]

\* ExecuteBatch, step 1: (lock,) read the current values of the affected keys
ExecRead(i) == /\ execs[i].phase = "start"
               /\ UseMutex => mutex = 0
               /\ mutex' = IF UseMutex THEN i ELSE mutex
               /\ execs' = [execs EXCEPT ![i].phase = "read", ![i].snap = Restrict(store, Keys(execs[i].adds))]
               /\ UNCHANGED <<next, lineq, busy, results, acc, nexec, store, failed, done>>
\* step 2: integrate into what was read, write back (, unlock)
ExecWrite(i) == /\ execs[i].phase = "read"
                /\ LET new == ApplyAdds(execs[i].snap, execs[i].adds) IN
                   store' = [k \in (DOMAIN store) \cup (DOMAIN new) |-> IF k \in DOMAIN new THEN new[k] ELSE store[k]]
                /\ mutex' = IF UseMutex THEN 0 ELSE mutex
                /\ execs' = [execs EXCEPT ![i].phase = "done"]
                /\ UNCHANGED <<next, lineq, busy, results, acc, nexec, failed, done>>

SinkBuilder == /\ Sink = "builder" /\ results # <<>>
               /\ acc' = acc \o Head(results) /\ results' = Tail(results)
               /\ UNCHANGED <<next, lineq, busy, execs, nexec, mutex, store, failed, done>>

\* ---- builder: sort, buckets, SST per bucket, ingest
Drained == next > NLines /\ lineq = <<>> /\ (\A w \in Workers : busy[w] = 0) /\ results = <<>>

RECURSIVE InsertSorted(_, _)
InsertSorted(s, x) == IF s = <<>> THEN <<x>> ELSE IF x[1] <= Head(s)[1] THEN <<x>> \o s ELSE <<Head(s)>> \o InsertSorted(Tail(s), x)
RECURSIVE SortRecs(_)
SortRecs(s) == IF s = <<>> THEN <<>> ELSE InsertSorted(SortRecs(Tail(s)), Head(s))

MinI(a, b) == IF a < b THEN a ELSE b
MaxI(a, b) == IF a > b THEN a ELSE b
\* end offset (exclusive, 0-based as in the code) of the bucket that starts at `start`
RECURSIVE Extend(_, _)
Extend(vals, e) == IF e < Len(vals) /\ KeepKeysTogether /\ vals[e + 1][1] = vals[e][1] THEN Extend(vals, e + 1) ELSE e
RECURSIVE Buckets(_, _, _, _)
Buckets(vals, start, i, size) ==
  IF i + 1 = MaxBuckets THEN << <<start, Len(vals)>> >>
  ELSE LET e == Extend(vals, MinI(start + size, Len(vals))) IN
       IF e = Len(vals) THEN << <<start, e>> >> ELSE << <<start, e>> >> \o Buckets(vals, e, i + 1, size)

\* ingest: files are applied in order; a key that is in several files keeps the value list of the last one
RECURSIVE Ingest(_, _, _)
Ingest(s, vals, bs) ==
  IF bs = <<>> THEN s
  ELSE LET b == Head(bs)
           sst == ApplyAdds(Empty, SubSeq(vals, b[1] + 1, b[2]))
       IN Ingest([k \in (DOMAIN s) \cup (DOMAIN sst) |-> IF k \in DOMAIN sst THEN sst[k] ELSE s[k]], vals, Tail(bs))

Finish ==
  /\ ~done /\ (failed \/ Drained)
  /\ (Sink = "batch" /\ ~failed) => Running = {}
  /\ mutex = 0 /\ (\A i \in DOMAIN execs : execs[i].phase \in {"done"} \/ failed)
  /\ store' = IF failed THEN store
              ELSE IF Sink = "batch" THEN ApplyAdds(store, acc)                      \* final flush of the last batch
              ELSE IF Sink = "builder" THEN
                   (IF acc = <<>> THEN Empty
                    ELSE LET vals == SortRecs(acc) IN Ingest(Empty, vals, Buckets(vals, 0, 0, MaxI(MinBucket, Len(vals) \div MaxBuckets))))
              ELSE store
  /\ done' = TRUE
  /\ UNCHANGED <<next, lineq, busy, results, acc, execs, nexec, mutex, failed>>

Next == Scan \/ (\E w \in Workers : Take(w) \/ Convert(w)) \/ SinkCdb \/ SinkBatch \/ SinkBuilder
        \/ (\E i \in DOMAIN execs : ExecRead(i) \/ ExecWrite(i)) \/ Finish
        \/ (done /\ UNCHANGED vars)            \* the run is over: anything else that stops is a deadlock
Spec == Init /\ [][Next]_vars /\ WF_vars(Next)

\* ------------------------------------------------------------------ properties
Lossless == (done /\ ~failed) => SameStoreBag(store, Reference)
FailsIffBadLine == done => (failed = Bad)
Terminates == <>done
=============================================================================
