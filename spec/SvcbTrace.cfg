SPECIFICATION TSpec
CONSTANTS MaxLen = 0 EmitJson = FALSE
INVARIANT Done
CHECK_DEADLOCK FALSE
